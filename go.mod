module verif

go 1.23

replace github.com/bradenaw/juniper => /repo

require github.com/bradenaw/juniper v0.0.0-00010101000000-000000000000
