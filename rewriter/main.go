// gomc-rewrite is engine E2's source-to-source transformer. It loads the given packages (with full
// type information), rewrites every channel operation, select, go statement, range-over-channel and
// the imports of sync, sync/atomic, context, time and math/rand onto the mc runtime, and writes
// the result plus a `go build -overlay` file. /repo is only read.
//
//	gomc-rewrite -out DIR [-tags t1,t2] pkg...
//
// Constructs outside the supported table are a hard error naming file and position.
package main

import (
	"bytes"
	"encoding/json"
	"flag"
	"fmt"
	"go/ast"
	"go/format"
	"go/parser"
	"go/printer"
	"go/token"
	"go/types"
	"os"
	"path/filepath"
	"strconv"
	"strings"

	"golang.org/x/tools/go/ast/astutil"
	"golang.org/x/tools/go/packages"
)

var shimImports = map[string]string{
	"sync":        "verif/mc/shim/sync",
	"sync/atomic": "verif/mc/shim/atomic",
	"context":     "verif/mc/shim/context",
	"time":        "verif/mc/shim/time",
	"math/rand":   "verif/mc/shim/rand",
}

const mcName = "gomc"

func fatal(format string, a ...any) {
	fmt.Fprintf(os.Stderr, "gomc-rewrite: "+format+"\n", a...)
	os.Exit(2)
}

func main() {
	out := flag.String("out", "", "output directory")
	tags := flag.String("tags", "", "build tags")
	flag.Parse()
	if *out == "" || flag.NArg() == 0 {
		fatal("usage: gomc-rewrite -out DIR pkg...")
	}
	absOut, _ := filepath.Abs(*out)
	cfg := &packages.Config{
		Dir: os.Getenv("GOMC_DIR"), Mode: packages.NeedName | packages.NeedFiles | packages.NeedCompiledGoFiles | packages.NeedSyntax | packages.NeedTypes | packages.NeedTypesInfo | packages.NeedImports | packages.NeedDeps | packages.NeedModule,
	}
	if *tags != "" {
		cfg.BuildFlags = []string{"-tags=" + *tags}
	}
	pkgs, err := packages.Load(cfg, flag.Args()...)
	if err != nil {
		fatal("load: %v", err)
	}
	overlay := map[string]string{}
	nfiles := 0
	for _, p := range pkgs {
		if len(p.Errors) > 0 {
			fatal("package %s: %v", p.PkgPath, p.Errors)
		}
		for i, f := range p.Syntax {
			src := p.CompiledGoFiles[i]
			r := &rewriter{pkg: p, file: f, fset: p.Fset}
			code := r.rewrite()
			var dst string
			if strings.HasPrefix(p.PkgPath, "golang.org/x/sync/") {
				// module-cache package: emitted as a local module, wired in with -modfile replace
				dst = filepath.Join(absOut, "xsync", strings.TrimPrefix(p.PkgPath, "golang.org/x/sync/"), filepath.Base(src))
			} else {
				dst = filepath.Join(absOut, "src", p.PkgPath, filepath.Base(src))
				overlay[src] = dst
			}
			if err := os.MkdirAll(filepath.Dir(dst), 0o755); err != nil {
				fatal("%v", err)
			}
			if err := os.WriteFile(dst, code, 0o644); err != nil {
				fatal("%v", err)
			}
			nfiles++
		}
	}
	if err := os.MkdirAll(filepath.Join(absOut, "xsync"), 0o755); err != nil {
		fatal("%v", err)
	}
	_ = os.WriteFile(filepath.Join(absOut, "xsync", "go.mod"), []byte("module golang.org/x/sync\n\ngo 1.18\n"), 0o644)
	b, _ := json.MarshalIndent(map[string]any{"Replace": overlay}, "", " ")
	if err := os.WriteFile(filepath.Join(absOut, "overlay.json"), b, 0o644); err != nil {
		fatal("%v", err)
	}
	fmt.Printf("gomc-rewrite: %d files of %d packages\n", nfiles, len(pkgs))
}

type rewriter struct {
	pkg  *packages.Package
	file *ast.File
	fset *token.FileSet
	n    int
	used bool // gomc referenced

	rangeChan  map[*ast.RangeStmt]bool
	chanLen    map[*ast.CallExpr]string // "Len" / "Cap"
	closeCall  map[*ast.CallExpr]bool
	makeChan   map[*ast.CallExpr]bool
	pkgSel     map[*ast.SelectorExpr]string // replacement function name in gomc
	commNodes  map[ast.Node]bool            // send stmts / receive exprs that belong to a select arm
	recv2      map[*ast.UnaryExpr]bool
	labeled    map[ast.Stmt]bool
	runtimeUse int
	runtimeRep int
}

func (r *rewriter) pos(n ast.Node) string { return r.fset.Position(n.Pos()).String() }

func (r *rewriter) unsupported(n ast.Node, what string) {
	fatal("unsupported construct at %s: %s", r.pos(n), what)
}

func (r *rewriter) tmp(prefix string) *ast.Ident {
	r.n++
	return ast.NewIdent(fmt.Sprintf("%s_%d", prefix, r.n))
}

func (r *rewriter) mc(name string) ast.Expr {
	r.used = true
	return &ast.SelectorExpr{X: ast.NewIdent(mcName), Sel: ast.NewIdent(name)}
}

func isChan(t types.Type) bool {
	if t == nil {
		return false
	}
	switch u := t.Underlying().(type) {
	case *types.Chan:
		return true
	case *types.TypeParam:
		_ = u
		return false
	}
	// type parameter with a channel core type
	if tp, ok := t.(*types.TypeParam); ok {
		if tp.Constraint() != nil {
			if _, ok := coreType(tp).(*types.Chan); ok {
				return true
			}
		}
	}
	return false
}

func coreType(tp *types.TypeParam) types.Type {
	iface, ok := tp.Constraint().Underlying().(*types.Interface)
	if !ok || iface.NumEmbeddeds() != 1 {
		return nil
	}
	return iface.EmbeddedType(0).Underlying()
}

func (r *rewriter) builtin(id *ast.Ident, name string) bool {
	if id.Name != name {
		return false
	}
	_, ok := r.pkg.TypesInfo.Uses[id].(*types.Builtin)
	return ok
}

// collect makes every type-directed decision before the tree is modified.
func (r *rewriter) collect() {
	info := r.pkg.TypesInfo
	r.rangeChan = map[*ast.RangeStmt]bool{}
	r.chanLen = map[*ast.CallExpr]string{}
	r.closeCall = map[*ast.CallExpr]bool{}
	r.makeChan = map[*ast.CallExpr]bool{}
	r.pkgSel = map[*ast.SelectorExpr]string{}
	r.commNodes = map[ast.Node]bool{}
	r.recv2 = map[*ast.UnaryExpr]bool{}
	r.labeled = map[ast.Stmt]bool{}
	ast.Inspect(r.file, func(n ast.Node) bool {
		switch x := n.(type) {
		case *ast.LabeledStmt:
			r.labeled[x.Stmt] = true
		case *ast.RangeStmt:
			if isChan(info.TypeOf(x.X)) {
				r.rangeChan[x] = true
			}
		case *ast.CallExpr:
			if id, ok := x.Fun.(*ast.Ident); ok {
				switch {
				case r.builtin(id, "close"):
					r.closeCall[x] = true
				case r.builtin(id, "make"):
					if len(x.Args) > 0 && isChan(info.TypeOf(x.Args[0])) {
						if _, ok := x.Args[0].(*ast.ChanType); !ok {
							r.unsupported(x, "make of a named channel type")
						}
						r.makeChan[x] = true
					}
				case r.builtin(id, "len") || r.builtin(id, "cap"):
					if len(x.Args) == 1 && isChan(info.TypeOf(x.Args[0])) {
						if id.Name == "len" {
							r.chanLen[x] = "Len"
						} else {
							r.chanLen[x] = "Cap"
						}
					}
				}
			}
		case *ast.SelectorExpr:
			if id, ok := x.X.(*ast.Ident); ok {
				if pn, ok := info.Uses[id].(*types.PkgName); ok {
					switch pn.Imported().Path() {
					case "runtime":
						r.runtimeUse++
						if x.Sel.Name == "GOMAXPROCS" {
							r.pkgSel[x] = "GOMAXPROCS"
							r.runtimeRep++
						}
					case "reflect":
						if x.Sel.Name == "Select" {
							r.pkgSel[x] = "ReflectSelect"
						}
					}
				}
			}
		case *ast.CommClause:
			switch c := x.Comm.(type) {
			case nil:
			case *ast.SendStmt:
				r.commNodes[c] = true
			case *ast.ExprStmt:
				r.commNodes[c.X] = true
			case *ast.AssignStmt:
				r.commNodes[c.Rhs[0]] = true
			}
		case *ast.AssignStmt:
			if len(x.Lhs) == 2 && len(x.Rhs) == 1 {
				if u, ok := ast.Unparen(x.Rhs[0]).(*ast.UnaryExpr); ok && u.Op == token.ARROW {
					r.recv2[u] = true
				}
			}
		case *ast.ValueSpec:
			if len(x.Names) == 2 && len(x.Values) == 1 {
				if u, ok := ast.Unparen(x.Values[0]).(*ast.UnaryExpr); ok && u.Op == token.ARROW {
					r.recv2[u] = true
				}
			}
		case *ast.TypeSwitchStmt, *ast.TypeAssertExpr:
			// fine: channel types inside are rewritten like everywhere else
		}
		return true
	})
}

func call(fun ast.Expr, args ...ast.Expr) *ast.CallExpr { return &ast.CallExpr{Fun: fun, Args: args} }

func method(x ast.Expr, name string, args ...ast.Expr) *ast.CallExpr {
	return call(&ast.SelectorExpr{X: paren(x), Sel: ast.NewIdent(name)}, args...)
}

func paren(x ast.Expr) ast.Expr {
	switch x.(type) {
	case *ast.Ident, *ast.SelectorExpr, *ast.CallExpr, *ast.IndexExpr, *ast.ParenExpr:
		return x
	}
	return &ast.ParenExpr{X: x}
}

func define(lhs []ast.Expr, tok token.Token, rhs ...ast.Expr) *ast.AssignStmt {
	return &ast.AssignStmt{Lhs: lhs, Tok: tok, Rhs: rhs}
}

func (r *rewriter) rewrite() []byte {
	r.collect()
	// imports
	for _, imp := range r.file.Imports {
		p, _ := strconv.Unquote(imp.Path.Value)
		if np, ok := shimImports[p]; ok {
			imp.Path.Value = strconv.Quote(np)
			imp.EndPos = token.NoPos
		}
	}
	astutil.Apply(r.file, nil, r.post)
	if r.runtimeUse > 0 && r.runtimeUse == r.runtimeRep {
		astutil.DeleteImport(r.fset, r.file, "runtime")
	}
	if r.used {
		astutil.AddNamedImport(r.fset, r.file, mcName, "verif/mc")
	}
	// Comments are dropped (positions of synthesised nodes would misplace them); keep the build
	// constraint.
	var header string
	for _, cg := range r.file.Comments {
		if cg.End() < r.file.Package {
			for _, c := range cg.List {
				if strings.HasPrefix(c.Text, "//go:build") {
					header = c.Text + "\n\n"
				}
			}
		}
	}
	r.file.Comments = nil
	r.file.Doc = nil
	ast.Inspect(r.file, func(n ast.Node) bool {
		switch x := n.(type) {
		case *ast.FuncDecl:
			x.Doc = nil
		case *ast.GenDecl:
			x.Doc = nil
		case *ast.TypeSpec:
			x.Doc, x.Comment = nil, nil
		case *ast.ValueSpec:
			x.Doc, x.Comment = nil, nil
		case *ast.ImportSpec:
			x.Doc, x.Comment = nil, nil
		case *ast.Field:
			x.Doc, x.Comment = nil, nil
		}
		return true
	})
	var buf bytes.Buffer
	buf.WriteString(header)
	buf.WriteString("// Code generated by gomc-rewrite from " + r.fset.Position(r.file.Package).Filename + ". DO NOT EDIT.\n\n")
	if err := (&printer.Config{Mode: printer.UseSpaces | printer.TabIndent, Tabwidth: 8}).Fprint(&buf, token.NewFileSet(), r.file); err != nil {
		fatal("print %s: %v", r.fset.Position(r.file.Package).Filename, err)
	}
	src, err := format.Source(buf.Bytes())
	if err != nil {
		_ = os.WriteFile("/tmp/gomc-rewrite-bad.go", buf.Bytes(), 0o644)
		fatal("generated code for %s does not parse: %v (kept as /tmp/gomc-rewrite-bad.go)", r.fset.Position(r.file.Package).Filename, err)
	}
	if _, err := parser.ParseFile(token.NewFileSet(), "x.go", src, 0); err != nil {
		fatal("generated code does not parse: %v", err)
	}
	return src
}

func (r *rewriter) post(c *astutil.Cursor) bool {
	switch x := c.Node().(type) {
	case *ast.ChanType:
		c.Replace(&ast.StarExpr{X: &ast.IndexExpr{X: r.mc("Chan"), Index: x.Value}})
	case *ast.CallExpr:
		switch {
		case r.makeChan[x]:
			st, ok := x.Args[0].(*ast.StarExpr)
			if !ok {
				r.unsupported(x, "make(chan) with an unexpected type expression")
			}
			elem := st.X.(*ast.IndexExpr).Index
			var size ast.Expr = &ast.BasicLit{Kind: token.INT, Value: "0"}
			if len(x.Args) > 1 {
				size = x.Args[1]
			}
			c.Replace(call(&ast.IndexExpr{X: r.mc("MakeChan"), Index: elem}, size))
		case r.closeCall[x]:
			c.Replace(method(x.Args[0], "Close"))
		case r.chanLen[x] != "":
			c.Replace(method(x.Args[0], r.chanLen[x]))
		}
	case *ast.SelectorExpr:
		if name, ok := r.pkgSel[x]; ok {
			c.Replace(r.mc(name))
		}
	case *ast.SendStmt:
		if r.commNodes[x] {
			return true
		}
		c.Replace(&ast.ExprStmt{X: method(x.Chan, "Send", x.Value)})
	case *ast.UnaryExpr:
		if x.Op != token.ARROW || r.commNodes[x] {
			return true
		}
		if r.recv2[x] {
			c.Replace(method(x.X, "Recv2"))
		} else {
			c.Replace(method(x.X, "Recv"))
		}
	case *ast.ParenExpr:
		// (<-c) inside a comm clause keeps its marker on the inner node
	case *ast.GoStmt:
		c.Replace(r.goStmt(x))
	case *ast.RangeStmt:
		if r.rangeChan[x] {
			c.Replace(r.rangeStmt(x))
		}
	case *ast.SelectStmt:
		if r.labeled[x] {
			r.unsupported(x, "labeled select statement")
		}
		c.Replace(r.selectStmt(x))
	}
	return true
}

func (r *rewriter) goStmt(g *ast.GoStmt) ast.Stmt {
	callExpr := g.Call
	var pre []ast.Stmt
	// evaluate function value (unless it is a literal or a plain name) and arguments eagerly
	if len(callExpr.Args) > 0 {
		if callExpr.Ellipsis.IsValid() {
			r.unsupported(g, "go statement with a variadic spread argument")
		}
		args := make([]ast.Expr, len(callExpr.Args))
		for i, a := range callExpr.Args {
			t := r.tmp("gomcArg")
			pre = append(pre, define([]ast.Expr{t}, token.DEFINE, a))
			args[i] = t
		}
		callExpr = &ast.CallExpr{Fun: callExpr.Fun, Args: args}
	}
	switch f := callExpr.Fun.(type) {
	case *ast.FuncLit, *ast.Ident:
	case *ast.SelectorExpr:
		// method value or package function: the receiver expression is evaluated eagerly
		if _, isPkg := r.pkg.TypesInfo.Uses[rootIdent(f.X)].(*types.PkgName); !isPkg {
			t := r.tmp("gomcFn")
			pre = append(pre, define([]ast.Expr{t}, token.DEFINE, f))
			callExpr = &ast.CallExpr{Fun: t, Args: callExpr.Args}
		}
	default:
		t := r.tmp("gomcFn")
		pre = append(pre, define([]ast.Expr{t}, token.DEFINE, f))
		callExpr = &ast.CallExpr{Fun: t, Args: callExpr.Args}
	}
	var body ast.Expr
	if fl, ok := callExpr.Fun.(*ast.FuncLit); ok && len(callExpr.Args) == 0 && fl.Type.Results == nil && (fl.Type.Params == nil || len(fl.Type.Params.List) == 0) {
		body = fl
	} else {
		body = &ast.FuncLit{Type: &ast.FuncType{Params: &ast.FieldList{}}, Body: &ast.BlockStmt{List: []ast.Stmt{&ast.ExprStmt{X: callExpr}}}}
	}
	goCall := &ast.ExprStmt{X: call(r.mc("Go"), body)}
	if len(pre) == 0 {
		return goCall
	}
	return &ast.BlockStmt{List: append(pre, goCall)}
}

func rootIdent(e ast.Expr) *ast.Ident {
	for {
		switch x := e.(type) {
		case *ast.Ident:
			return x
		case *ast.SelectorExpr:
			e = x.X
		case *ast.ParenExpr:
			e = x.X
		default:
			return ast.NewIdent("_")
		}
	}
}

// for k := range ch { body }   ==>   for c := ch; ; { k, ok := c.Recv2(); if !ok { break }; body }
func (r *rewriter) rangeStmt(x *ast.RangeStmt) ast.Stmt {
	if x.Value != nil {
		r.unsupported(x, "range over channel with two iteration variables")
	}
	ch := r.tmp("gomcCh")
	ok := r.tmp("gomcOk")
	var key ast.Expr = ast.NewIdent("_")
	tok := token.DEFINE
	var pre []ast.Stmt
	if x.Key != nil {
		key = x.Key
		if x.Tok == token.ASSIGN {
			tok = token.ASSIGN
			pre = append(pre, &ast.DeclStmt{Decl: &ast.GenDecl{Tok: token.VAR, Specs: []ast.Spec{&ast.ValueSpec{Names: []*ast.Ident{ok}, Type: ast.NewIdent("bool")}}}})
		}
	}
	body := append(pre,
		define([]ast.Expr{key, ok}, tok, method(ch, "Recv2")),
		&ast.IfStmt{Cond: &ast.UnaryExpr{Op: token.NOT, X: ok}, Body: &ast.BlockStmt{List: []ast.Stmt{&ast.BranchStmt{Tok: token.BREAK}}}},
	)
	if id, isIdent := key.(*ast.Ident); isIdent && id.Name != "_" && tok == token.DEFINE {
		// keep "declared and not used" away if the body never reads the variable
		body = append(body, define([]ast.Expr{ast.NewIdent("_")}, token.ASSIGN, ast.NewIdent(id.Name)))
	}
	body = append(body, x.Body.List...)
	return &ast.ForStmt{
		Init: define([]ast.Expr{ch}, token.DEFINE, x.X),
		Body: &ast.BlockStmt{List: body},
	}
}

func (r *rewriter) selectStmt(x *ast.SelectStmt) ast.Stmt {
	var stmts []ast.Stmt
	res := r.tmp("gomcSel")
	args := []ast.Expr{nil}
	hasDefault := false
	var clauses []ast.Stmt
	idx := 0
	for _, cl := range x.Body.List {
		cc := cl.(*ast.CommClause)
		if cc.Comm == nil {
			hasDefault = true
			// the select's default arm (Index -1) becomes the switch's default clause, which keeps
			// Go's "terminating statement" analysis identical to the original select
			clauses = append(clauses, &ast.CaseClause{List: nil, Body: cc.Body})
			continue
		}
		h := r.tmp("gomcCase")
		var body []ast.Stmt
		switch c := cc.Comm.(type) {
		case *ast.SendStmt:
			stmts = append(stmts, define([]ast.Expr{h}, token.DEFINE, call(r.mc("SendCase"), c.Chan, c.Value)))
		case *ast.ExprStmt:
			u, ok := ast.Unparen(c.X).(*ast.UnaryExpr)
			if !ok || u.Op != token.ARROW {
				r.unsupported(cc, "select arm that is not a send or receive")
			}
			stmts = append(stmts, define([]ast.Expr{h}, token.DEFINE, call(r.mc("RecvCase"), u.X)))
		case *ast.AssignStmt:
			u, ok := ast.Unparen(c.Rhs[0]).(*ast.UnaryExpr)
			if !ok || u.Op != token.ARROW {
				r.unsupported(cc, "select arm that is not a send or receive")
			}
			stmts = append(stmts, define([]ast.Expr{h}, token.DEFINE, call(r.mc("RecvCase"), u.X)))
			m := "Recv"
			if len(c.Lhs) == 2 {
				m = "Recv2"
			}
			body = append(body, define(c.Lhs, c.Tok, method(h, m, res)))
			if c.Tok == token.DEFINE {
				for _, l := range c.Lhs {
					if id, ok := l.(*ast.Ident); ok && id.Name != "_" {
						body = append(body, define([]ast.Expr{ast.NewIdent("_")}, token.ASSIGN, ast.NewIdent(id.Name)))
					}
				}
			}
		default:
			r.unsupported(cc, "unknown select arm")
		}
		args = append(args, h)
		clauses = append(clauses, &ast.CaseClause{List: []ast.Expr{&ast.BasicLit{Kind: token.INT, Value: strconv.Itoa(idx)}}, Body: append(body, cc.Body...)})
		idx++
	}
	if !hasDefault {
		clauses = append(clauses, &ast.CaseClause{List: nil, Body: []ast.Stmt{&ast.ExprStmt{X: call(ast.NewIdent("panic"), &ast.BasicLit{Kind: token.STRING, Value: `"gomc: impossible select index"`})}}})
	}
	args[0] = ast.NewIdent(strconv.FormatBool(hasDefault))
	stmts = append(stmts, define([]ast.Expr{res}, token.DEFINE, call(r.mc("Select"), args...)))
	stmts = append(stmts, &ast.SwitchStmt{Tag: &ast.SelectorExpr{X: res, Sel: ast.NewIdent("Index")}, Body: &ast.BlockStmt{List: clauses}})
	return &ast.BlockStmt{List: stmts}
}
