#!/usr/bin/env python3
"""Generates MANIFEST.json from the table below (single source of truth for what is claimed)."""
import json, os, subprocess
ROOT = os.path.dirname(os.path.dirname(os.path.abspath(__file__)))
E1 = "E1 seqx: explicit-state BFS / bounded-exhaustive enumeration on the real sequential code"
E2 = "E2 gomc: stateless model checking of the real concurrent code under a controlled scheduler"
# id -> (engine, technique, level text, level note, design ref)
CHECKS = {
 "C06": ("seqx", "explicit-state BFS closure (states keyed by list length) + exhaustive enumeration of all operation sequences up to a depth bound, slice-of-handles reference model checked after every step",
   "Every transition out of every list length 0..N with every choice of node/mark handle, plus all operation sequences up to depth 5/6 from the empty list and depth 3 from canonical lists of every length, executed on the real xlist.List and compared with a slice-of-handles model by walking both directions after each operation. Exhaustive within these bounds; the list has no hidden state beyond its pointers, so the closure by length covers every reachable shape up to N.",
   "Values are opaque to the list (parametricity). Lists longer than N nodes and sequences longer than the depth bound that are not covered by the length-closure argument are outside the bound.",
   "DESIGN.md §4 C06"),
 "C05": ("seqx", "explicit-state BFS closure over reachable heap arrays from every initial slice, multiset / key->priority map reference model, full observation after every transition",
   "Closure of the reachable states (heap array order as exposed by Iterate) of the real xheap.Heap (<=7/9 items, 3 priorities with ties, every initial slice up to length 6/8) and xheap.PriorityQueue (6/7 keys, 3 priorities, every initial list up to length 4/5 incl. duplicate keys), built with less and with compare, under Push/Pop resp. Update/Remove/Pop. After every transition: Len, Peek minimality, Pop minimality and membership, Contains/Priority of every key (also absent ones), Iterate as a set, panics on empty. Exhaustive within the size bounds.",
   "Items are opaque except through the comparison (parametricity): tied items are interchangeable in the state key. Heaps larger than the size bound are not explored.",
   "DESIGN.md §4 C05"),
 "C04": ("seqx", "explicit-state BFS closure over every reachable ring-buffer configuration (capacity <= 36/72) from the zero value, plain-slice reference model, full observation and raw-slot retention check on every state",
   "Closure, from the zero value, of every reachable (buffer nil/allocated, capacity, front, back, occupancy) configuration of the real Deque with capacity up to 36 (quick) / 72 (thorough, so the 16->32->64 doubling of a wrapped full buffer is inside), under PushFront/PushBack/PopFront/PopBack/Set/Grow/Shrink with every argument class. Every transition checks the returned value or the panic-leaves-state-unchanged clause; every state gets Len, Front, Back, Item(-1..len), Iterate and the raw-slot retention check (hook). Exhaustive within the capacity bound.",
   "Element values are opaque to the deque (parametricity). Read-only hook container/deque/verif_export.go is trusted to report the private fields faithfully. Capacities above the bound are not explored.",
   "DESIGN.md §4 C04"),
 "C15": ("seqx", "exhaustive enumeration of (reachable container state x iterator position x mutation x second mutation) on the real containers, snapshot-or-panic oracle",
   "For every reachable deque configuration (capacity <= 20/34, length <= 5/6), heap (<= 5/6 items, every initial slice) and priority queue (4/5 keys) state: every iterator position 0..len, every mutating operation from the property's list and every second mutation (or none), then iteration continued to exhaustion or panic. Oracle: yielded items are a correct prefix of the snapshot (sequence for the deque, multiset for heap/queue), exhaustion only after the whole snapshot, and a mandatory panic on the next call once iteration is under way and an element was added or removed.",
   "A value-only overwrite (Deque.Set, Update of a present key) is not an element change: old or new value or a panic are all accepted. The snapshot may be taken at Iterate() or at the first Next(). Larger containers and more than two mid-iteration mutations are outside the bound.",
   "DESIGN.md §4 C15"),
 "C01": ("seqx", "explicit-state BFS closure over all reachable B-tree structures at fan-outs 3/4(/5/6) with a sorted-map reference model and full range-query observation per state; exhaustive depth-bounded sequence enumeration from seed trees at the shipped fan-out 16",
   "Closure of every reachable node structure of the real tree.Map/tree.Set over a key universe (9-13 keys; natural, reversed and coarse orders with distinct-but-equivalent keys; less- and cmp-constructed; operations alternate between two copies of the value) at fan-outs 3 and 4 (thorough: 3-6), reached by replacing only the value of the branchFactor constant through a build overlay. Every state gets Len, First, Last, Get/Contains of all keys, Iterate, and Range/RangeReverse for all 9 bound-kind pairs over all bound positions, compared with a sorted-slice model, plus the write-footprint invariant that underlies the concurrency clause (a Put of a present key changes exactly its value slot; reads change nothing). At the shipped fan-out 16: all operation sequences up to depth 1/2 (thorough 2/3) over the structural focus alphabet from ascending/descending/saw-tooth fills to the capacity boundaries and from trees drained to minimal leaves. The concurrent clause is additionally explored under the controlled scheduler (see C01 concurrency part in the evidence once built).",
   "Keys are touched only through the comparator and values never inspected (parametricity). branchFactor is treated as a configuration parameter of otherwise unmodified source. The 'free of data races' sub-clause is decided by the exhaustive write-footprint invariant, not by observing the memory model; larger universes are outside the bound.",
   "DESIGN.md §4 C01"),
 "C02": ("seqx", "explicit-state BFS closure of the product (tree structure x private cursor state of live iterators x oracle monitor) at small fan-outs; exhaustive scenario enumeration with the iterator parked on every structural boundary at fan-out 16",
   "Closure of the product of the real tree with one live iterator (thorough: two simultaneous, forward and reverse) over Put/Delete of every key, iterator creation at every reachable tree state (Iterate and all 8 bounded Range/RangeReverse kinds) and Next, at fan-outs 3/4 (thorough 3-6). The iterator's private cursor state (hook) is part of the state key, so the closure is exact. Per-Next oracle: no panic, no spinning (comparator budget), strictly monotone, inside bounds, present now with its current value, sticky exhaustion, and the no-skip rule for keys continuously present since before the previous yield. At fan-out 16: iterator parked on the first/middle/last key of every node of seeded trees, 0-2 items consumed, every focus-alphabet mutation plus a second nearby one, iteration continued to exhaustion.",
   "Parametricity as for C01. Keys inserted after the previous yield and before the next one may legitimately be skipped (the cursor had already advanced); the oracle allows both outcomes. Universe 5-9 keys per configuration.",
   "DESIGN.md §4 C02"),
 "C03": ("seqx", "explicit-state BFS closure at small fan-outs and exhaustive depth-bounded sequence enumeration from seed trees at fan-out 16, structural invariant evaluated on every state through a read-only hook, comparator-call bound through the public API",
   "Same transitions as C01. After every single operation: every non-root node has minKVs..maxKVs keys, root non-empty unless the tree is empty, all leaves at one depth, keys strictly increasing in order, child count n+1 or 0, parent links correct, Len = number of stored keys = model size, vacated key/value/child slots hold zero values (unreachability of removed data), depth <= 1+floor(log_(minKVs+1)((n+1)/2)), and Get/Contains use at most maxKVs (15 at fan-out 16) comparisons per level. Seeds at fan-out 16 include fills to 15/16/17/127/128/129/136/137/255/256 keys (ascending, descending, saw-tooth, checked after each Put) and trees drained to minimal leaves so that single deletes force steal-left, steal-right, merges, cascades and root collapse; a table of structural events exercised is part of the evidence.",
   "The read-only hook container/tree/verif_export.go is trusted to copy the private structure faithfully. 'Can be garbage collected' is decided as: not referenced from the live structure (vacated slots zeroed, detached nodes unreachable).",
   "DESIGN.md §4 C03"),
 "C10": ("gomc", "stateless model checking of the real stream.Pipe code (source-transformed onto a controlled scheduler): depth-first enumeration of all schedules, select-arm and rendez-vous choices within an iterated preemption bound",
   "The current sources of stream (and everything it uses) are mechanically rewritten so that every channel operation, select, go statement, sync/atomic/context/time call runs on a deterministic cooperative runtime; the explorer then enumerates every execution of 33 closed scenarios (buffer 0/1/2; one or two senders using Send or TrySend; Close(nil)/Close(err) from a sender or a third thread; receiver reading to the end plus two more calls or closing early; context cancellation) with at most 2-3 preemptions (thorough 3-4), including both outcomes whenever several select arms are ready. Oracle on the call/return log: only sent values, at most once, per-sender order; every value acknowledged before Close was called is received before End/err; End/err sticky once no Send is in flight; documented error values; TrySend never parks; no deadlock (a call blocked forever shows as one).",
   "Code between two synchronisation operations is an atomic step (extra scheduling points are inserted after close/unlock/atomic writes/cancel to expose publish-before-write orders); memory-model effects below sequential consistency are out of scope. The runtime's channel/select/sync semantics are pinned by mc/mc_test.go. Bounded: <=3 threads besides the receiver, <=3 values, preemption bound as stated in the evidence.",
   "DESIGN.md §4 C10"),
 "C16": ("gomc", "stateless model checking of the real xsync.ContextCond under a controlled scheduler: all schedules within an iterated preemption bound (every schedule for the one-waiter scenarios), quiescence oracle",
   "18 closed scenarios on the transformed real code: k = 1..3 waiters (each Lock; Wait through a Locker whose Unlock the harness observes), a signaller that waits until all k have released the lock and then issues m = 1..3 Signals or one Broadcast, optionally a thread cancelling one waiter's context at any moment, optionally Broadcasts issued before any waiter exists. Every schedule is explored for k = 1, m <= 2; otherwise every schedule with at most 2 (thorough 3) preemptions (k = 3 additionally at most 3 non-default choices at blocking points). Oracle at quiescence: a waiter with a live context is still blocked although fewer Waits returned nil than Signals were issued (or any waiter blocked after Broadcast) = lost wakeup; nil return holds the lock; error return is the context's error, without the lock; no cancelled waiter left blocked. The known capacity-1 defect (k >= 2, m >= 2) is a recorded finding; exploration continues below it so other violations are still reported.",
   "As C10 (atomic steps between synchronisation operations, runtime semantics pinned by unit tests). 'Entered Wait' = has released the caller's lock. Known finding masks only lost-wakeup reports of scenarios with k >= 2 and m >= 2.",
   "DESIGN.md §4 C16"),
 "C13": ("gomc", "stateless model checking of the real parallel.Do/DoContext/Map/MapContext (and the real errgroup) under a controlled scheduler: all schedules within an iterated preemption bound",
   "49 closed scenarios on the transformed real code (parallel and golang.org/x/sync/errgroup): n = 0..4, parallelism -1/0/1/2/3/>n with the GOMAXPROCS answer controlled (2 or 3), every failing subset of size <= 2 at the first/last positions, caller context live / already cancelled / cancelled by another thread mid-flight. f logs entry and exit around a scheduling point, so every relative order of call starts and ends is reachable. Explored: every execution with at most 3 (thorough 4) preemptions. Oracle: exactly one call per index when nothing fails and never two; concurrent-call gauge <= effective parallelism; out[i] = f(in[i]); all started calls have exited at the moment of return and none starts afterwards; a returned error is one a call returned or the caller's context error; an error is never swallowed; while the caller's context is live at most parallelism-1 calls begin with a cancelled context.",
   "As C10. errgroup is the version pinned by juniper's go.mod, transformed like the library itself. Larger n and parallelism values are covered only through the structure of the code (one shared counter, identical workers).",
   "DESIGN.md §4 C13"),
 "C12": ("gomc", "stateless model checking of the real chans.Merge (all four arity paths incl. reflect.Select), chans.Replicate and stream.Merge under a controlled scheduler within iterated preemption and deviation bounds",
   "43 closed scenarios on the transformed real code: chans.Merge with 0..5 inputs whose close order is scripted (all permutations for 2 and 3 inputs, four orders each for 4 and 5), and with producer threads on unbuffered inputs; Replicate with 0-2 destinations of capacity 0/1; stream.Merge with 0-3 instrumented scripted inputs (values, immediate end, error at each position, inputs that block until their context ends), read to the end plus two more calls or closed after j values. Explored: all executions with at most 2 preemptions (1 for the scripted close orders) and a bounded number of simultaneous non-default select-arm choices. Oracle: output = interleaving with the same multiset and per-input order; the blocking call returns / End is reported in every execution (deadlock otherwise) and End is sticky; an input's error is the one reported, never End; after the merged stream's Close returned no thread started by it is alive and every input was closed exactly once, never during or before a Next.",
   "As C10. stream.Merge's inputs honour their context. After an error has been reported a value that was already being handed over may still arrive: only the normal end is required to be sticky.",
   "DESIGN.md §4 C12"),
 "C14": ("gomc", "stateless model checking of the real parallel.MapIterator / MapStream (with the real errgroup and xheap) under a controlled scheduler within iterated preemption and deviation bounds",
   "31 closed scenarios on the transformed real code: source length 0-5, parallelism 0 (controlled GOMAXPROCS)/1/2/3, bufferSize -1..3, f with a scheduling point inside (late items finish first in every way the bounds allow), MapStream with an instrumented scripted source (values, error at a position, a source that blocks until cancelled), f failing at a position, consumer reading to the end, closing after j results, or using a per-call context that another thread cancels and then retrying. Explored: all executions with at most 2 preemptions (1 for the largest scenarios) and at most 3 simultaneous non-default free choices. Oracle: results = f(x) once each in source order; no deadlock; source items taken minus items yielded never exceeds bufferSize+parallelism+1 (checked at every source pull); MapStream's error is the source's or f's own, never a library-caused cancellation, no result beyond a failed item; after Close returned no worker is alive and the source was closed exactly once, never during a Next.",
   "As C10. An item that a Next call in progress has already taken from the reorder buffer counts as yielded (only the call's return is visible from outside), so one more item is allowed while the consumer is inside Next.",
   "DESIGN.md §4 C14"),
 "C18": ("gomc+seqx", "stateless model checking of Watchable/Future/Lazy under a controlled scheduler (preemption bound 3/4) plus exhaustive enumeration of all xsync.Map operation sequences against sync.Map",
   "Concurrent part (13 scenarios, transformed real code): 0-2 setter threads with 1-2 Sets each and 1-2 observers running the documented loop, incl. Value racing the first Set; at quiescence an observer parked on an unclosed channel must hold the current value, the final value is some setter's last one, a closed channel always comes with a new value, zero only before the first Set. Future: Fill racing Wait/WaitContext callers and a canceller; Lazy: 2-3 concurrent first calls with a scheduling point inside f. Typed-map part: every sequence of Load/Store/LoadOrStore/LoadAndDelete/Delete/Swap/CompareAndSwap/CompareAndDelete/Range of depth <= 4 (thorough 5) over 2 keys and zero/non-zero/nil values for V = int, string, error and any, each step compared with sync.Map (absent = zero value, no panic unless sync.Map panics).",
   "As C10 for the concurrent part. The typed map is compared with the sync.Map of the toolchain in use.",
   "DESIGN.md §4 C18"),
}
props = [json.loads(l) for l in open(os.path.join(ROOT, "properties.jsonl"))]
hook_commits = subprocess.run(["git","-C","/repo","log","--format=%H %s","--grep=^verif hook"],capture_output=True,text=True).stdout.strip().splitlines()
m = {
 "version": 1,
 "setup_cmd": "./setup.sh",
 "hooks": {
   "guard": "verif",
   "enable": "go build -tags verif (the check script passes it on every build; hook files are //go:build verif and add-only)",
   "baseline_off_cmd": "cd /repo && GOFLAGS=-mod=mod GOPROXY=off GOSUMDB=off GOTOOLCHAIN=local go test -vet=off -count=1 ./...",
   "source_commits": [l.split()[0] for l in hook_commits],
   "add_only": True,
 },
 "engines": [
   {"name": "seqx", "path": "internal/seqx", "kind_free_text": E1, "serves_properties": sorted(k for k,v in CHECKS.items() if v[0]=="seqx")},
   {"name": "gomc", "path": "mc", "kind_free_text": E2, "serves_properties": sorted(k for k,v in CHECKS.items() if v[0]=="gomc")},
 ],
 "checks": [],
 "not_applicable": [],
 "notes": "All checks are model checking: exhaustive enumeration of a bounded space of operation sequences / inputs / schedules on the real code. See DESIGN.md.",
}
for p in props:
    i = p["id"]
    if i in CHECKS:
        eng, tech, text, note, ref = CHECKS[i]
        m["checks"].append({
          "property_id": i,
          "quick_cmd": "./check %s quick" % i,
          "thorough_cmd": "./check %s thorough" % i,
          "evidence_file": "/verif/evidence/%s.json" % i,
          "replay_cmd_template": "./check %s --replay {path}" % i,
          "engine": eng,
          "technique": tech,
          "level_claimed": {"category": "model_checking", "text": text, "design_ref": ref},
          "level_note": note,
        })
    else:
        m["not_applicable"].append({"property_id": i, "reason": "not claimed yet: the check for this property is still being built (model checking applies; see DESIGN.md §4)"})
json.dump(m, open(os.path.join(ROOT, "MANIFEST.json"), "w"), indent=1)
print("checks:", len(m["checks"]), "not_applicable:", len(m["not_applicable"]))
