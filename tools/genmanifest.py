#!/usr/bin/env python3
"""Generates MANIFEST.json from the table below (single source of truth for what is claimed)."""
import json, os, subprocess
ROOT = os.path.dirname(os.path.dirname(os.path.abspath(__file__)))
E1 = "E1 seqx: explicit-state BFS / bounded-exhaustive enumeration on the real sequential code"
E2 = "E2 gomc: stateless model checking of the real concurrent code under a controlled scheduler"
# id -> (engine, technique, level text, level note, design ref)
CHECKS = {
 "C06": ("seqx", "explicit-state BFS closure (states keyed by list length) + exhaustive enumeration of all operation sequences up to a depth bound, slice-of-handles reference model checked after every step",
   "Every transition out of every list length 0..N with every choice of node/mark handle, plus all operation sequences up to depth 5/6 from the empty list and depth 3 from canonical lists of every length, executed on the real xlist.List and compared with a slice-of-handles model by walking both directions after each operation. Exhaustive within these bounds; the list has no hidden state beyond its pointers, so the closure by length covers every reachable shape up to N.",
   "Values are opaque to the list (parametricity). Lists longer than N nodes and sequences longer than the depth bound that are not covered by the length-closure argument are outside the bound.",
   "DESIGN.md §4 C06"),
 "C05": ("seqx", "explicit-state BFS closure over reachable heap arrays from every initial slice, multiset / key->priority map reference model, full observation after every transition",
   "Closure of the reachable states (heap array order as exposed by Iterate) of the real xheap.Heap (<=7/9 items, 3 priorities with ties, every initial slice up to length 6/8) and xheap.PriorityQueue (6/7 keys, 3 priorities, every initial list up to length 4/5 incl. duplicate keys), built with less and with compare, under Push/Pop resp. Update/Remove/Pop. After every transition: Len, Peek minimality, Pop minimality and membership, Contains/Priority of every key (also absent ones), Iterate as a set, panics on empty. Exhaustive within the size bounds.",
   "Items are opaque except through the comparison (parametricity): tied items are interchangeable in the state key. Heaps larger than the size bound are not explored.",
   "DESIGN.md §4 C05"),
 "C04": ("seqx", "explicit-state BFS closure over every reachable ring-buffer configuration (capacity <= 36/72) from the zero value, plain-slice reference model, full observation and raw-slot retention check on every state",
   "Closure, from the zero value, of every reachable (buffer nil/allocated, capacity, front, back, occupancy) configuration of the real Deque with capacity up to 36 (quick) / 72 (thorough, so the 16->32->64 doubling of a wrapped full buffer is inside), under PushFront/PushBack/PopFront/PopBack/Set/Grow/Shrink with every argument class. Every transition checks the returned value or the panic-leaves-state-unchanged clause; every state gets Len, Front, Back, Item(-1..len), Iterate and the raw-slot retention check (hook). Exhaustive within the capacity bound.",
   "Element values are opaque to the deque (parametricity). Read-only hook container/deque/verif_export.go is trusted to report the private fields faithfully. Capacities above the bound are not explored.",
   "DESIGN.md §4 C04"),
 "C15": ("seqx", "exhaustive enumeration of (reachable container state x iterator position x mutation x second mutation) on the real containers, snapshot-or-panic oracle",
   "For every reachable deque configuration (capacity <= 20/34, length <= 5/6), heap (<= 5/6 items, every initial slice) and priority queue (4/5 keys) state: every iterator position 0..len, every mutating operation from the property's list and every second mutation (or none), then iteration continued to exhaustion or panic. Oracle: yielded items are a correct prefix of the snapshot (sequence for the deque, multiset for heap/queue), exhaustion only after the whole snapshot, and a mandatory panic on the next call once iteration is under way and an element was added or removed.",
   "A value-only overwrite (Deque.Set, Update of a present key) is not an element change: old or new value or a panic are all accepted. The snapshot may be taken at Iterate() or at the first Next(). Larger containers and more than two mid-iteration mutations are outside the bound.",
   "DESIGN.md §4 C15"),
}
props = [json.loads(l) for l in open(os.path.join(ROOT, "properties.jsonl"))]
hook_commits = subprocess.run(["git","-C","/repo","log","--format=%H %s","--grep=^verif hook"],capture_output=True,text=True).stdout.strip().splitlines()
m = {
 "version": 1,
 "setup_cmd": "./setup.sh",
 "hooks": {
   "guard": "verif",
   "enable": "go build -tags verif (the check script passes it on every build; hook files are //go:build verif and add-only)",
   "baseline_off_cmd": "cd /repo && GOFLAGS=-mod=mod GOPROXY=off GOSUMDB=off GOTOOLCHAIN=local go test -vet=off -count=1 ./...",
   "source_commits": [l.split()[0] for l in hook_commits],
   "add_only": True,
 },
 "engines": [
   {"name": "seqx", "path": "internal/seqx", "kind_free_text": E1, "serves_properties": sorted(k for k,v in CHECKS.items() if v[0]=="seqx")},
   {"name": "gomc", "path": "mc", "kind_free_text": E2, "serves_properties": sorted(k for k,v in CHECKS.items() if v[0]=="gomc")},
 ],
 "checks": [],
 "not_applicable": [],
 "notes": "All checks are model checking: exhaustive enumeration of a bounded space of operation sequences / inputs / schedules on the real code. See DESIGN.md.",
}
for p in props:
    i = p["id"]
    if i in CHECKS:
        eng, tech, text, note, ref = CHECKS[i]
        m["checks"].append({
          "property_id": i,
          "quick_cmd": "./check %s quick" % i,
          "thorough_cmd": "./check %s thorough" % i,
          "evidence_file": "/verif/evidence/%s.json" % i,
          "replay_cmd_template": "./check %s --replay {path}" % i,
          "engine": eng,
          "technique": tech,
          "level_claimed": {"category": "model_checking", "text": text, "design_ref": ref},
          "level_note": note,
        })
    else:
        m["not_applicable"].append({"property_id": i, "reason": "not claimed yet: the check for this property is still being built (model checking applies; see DESIGN.md §4)"})
json.dump(m, open(os.path.join(ROOT, "MANIFEST.json"), "w"), indent=1)
print("checks:", len(m["checks"]), "not_applicable:", len(m["not_applicable"]))
