//go:build !mcbuild

// Conformance self-test, free-running side: observes the outcomes of real executions.
package main

import (
	"encoding/json"
	"fmt"
	"sort"

	"verif/mc/conf/scn"
	"verif/mc/hx"
)

func main() {
	out := map[string][]string{}
	for _, p := range scn.All() {
		seen := map[string]bool{}
		for i := 0; i < 3000; i++ {
			hx.Reset()
			done := make(chan struct{})
			go func() { defer close(done); p.Body() }()
			<-done
			o, _ := hx.Result()
			seen[o] = true
		}
		var os []string
		for o := range seen {
			os = append(os, o)
		}
		sort.Strings(os)
		out[p.Name] = os
	}
	b, _ := json.Marshal(out)
	fmt.Println(string(b))
}
