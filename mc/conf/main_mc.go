//go:build mcbuild

// Conformance self-test, controlled side: enumerates every outcome of each tiny program.
package main

import (
	"encoding/json"
	"fmt"
	"sort"

	"verif/mc"
	"verif/mc/conf/scn"
)

func main() {
	out := map[string][]string{}
	for _, p := range scn.All() {
		rep := mc.Explore(p.Body, mc.Options{Bound: 3, MaxExecs: 400000, AllowDeadlock: true})
		if rep.Found != nil {
			fmt.Printf("ERROR %s: %s %s\n", p.Name, rep.Found.Sig, rep.Found.Detail)
		}
		var os []string
		for o := range rep.Outcomes {
			os = append(os, o)
		}
		sort.Strings(os)
		out[p.Name] = os
	}
	b, _ := json.Marshal(out)
	fmt.Println(string(b))
}
