// Package scn holds tiny plain-Go programs used to bind the mc runtime + transformer to the real Go
// runtime: every outcome observed from real executions must be in the outcome set that the explorer
// enumerates for the transformed program (tools/selftest-mc).
package scn

import (
	"context"
	"fmt"
	"sort"
	"sync"
	"sync/atomic"

	"verif/mc/hx"
)

type Prog struct {
	Name string
	Body func()
}

func All() []Prog {
	return []Prog{
		{"unbuffered-trysend", func() {
			c := make(chan int)
			done := make(chan struct{})
			got := -1
			go func() {
				select {
				case v := <-c:
					got = v
				case <-done:
				}
			}()
			hx.Yield()
			sent := false
			select {
			case c <- 1:
				sent = true
			default:
			}
			close(done)
			hx.Quiesce()
			_ = got
			hx.Outcome("sent=%v", sent)
		}},
		{"two-senders-buffered", func() {
			c := make(chan int, 2)
			var wg sync.WaitGroup
			for i := 1; i <= 2; i++ {
				i := i
				wg.Add(1)
				go func() { defer wg.Done(); c <- i }()
			}
			wg.Wait()
			hx.Outcome("%d%d", <-c, <-c)
		}},
		{"close-and-range", func() {
			c := make(chan int, 1)
			go func() {
				c <- 1
				c <- 2
				close(c)
			}()
			s := 0
			for v := range c {
				s = s*10 + v
			}
			_, ok := <-c
			hx.Outcome("%d %v", s, ok)
		}},
		{"select-two-ready", func() {
			a := make(chan int, 1)
			b := make(chan int, 1)
			a <- 1
			b <- 2
			select {
			case v := <-a:
				hx.Outcome("a%d", v)
			case v := <-b:
				hx.Outcome("b%d", v)
			}
		}},
		{"lost-update-vs-atomic", func() {
			var plain int32
			var at int32
			var wg sync.WaitGroup
			for i := 0; i < 2; i++ {
				wg.Add(1)
				go func() {
					defer wg.Done()
					v := atomic.LoadInt32(&plain)
					hx.Yield()
					atomic.StoreInt32(&plain, v+1)
					atomic.AddInt32(&at, 1)
				}()
			}
			wg.Wait()
			hx.Outcome("plain=%d atomic=%d", plain, at)
		}},
		{"cancel-vs-send", func() {
			ctx, cancel := context.WithCancel(context.Background())
			c := make(chan int)
			go func() { c <- 1 }()
			go cancel()
			select {
			case <-c:
				hx.Outcome("value")
			case <-ctx.Done():
				hx.Outcome("cancelled %v", ctx.Err())
				<-c
			}
		}},
		{"once-two-callers", func() {
			var once sync.Once
			n := 0
			var wg sync.WaitGroup
			res := make([]int, 2)
			for i := 0; i < 2; i++ {
				i := i
				wg.Add(1)
				go func() {
					defer wg.Done()
					once.Do(func() { hx.Yield(); n++ })
					res[i] = n
				}()
			}
			wg.Wait()
			hx.Outcome("%v", res)
		}},
		{"nil-channel-in-select", func() {
			var n chan int
			c := make(chan int, 1)
			c <- 5
			select {
			case v := <-n:
				hx.Outcome("nil %d", v)
			case v := <-c:
				hx.Outcome("c %d", v)
			}
		}},
		{"rwmutex", func() {
			var m sync.RWMutex
			x := 0
			var wg sync.WaitGroup
			seen := make([]int, 2)
			for i := 0; i < 2; i++ {
				i := i
				wg.Add(1)
				go func() { defer wg.Done(); m.RLock(); seen[i] = x; m.RUnlock() }()
			}
			wg.Add(1)
			go func() { defer wg.Done(); m.Lock(); x = 7; m.Unlock() }()
			wg.Wait()
			sort.Ints(seen)
			hx.Outcome("%v", seen)
		}},
		{"cond-signal", func() {
			var m sync.Mutex
			c := sync.NewCond(&m)
			ready := false
			done := make(chan string, 1)
			go func() {
				m.Lock()
				for !ready {
					c.Wait()
				}
				m.Unlock()
				done <- "woken"
			}()
			m.Lock()
			ready = true
			c.Signal()
			m.Unlock()
			hx.Outcome("%s", <-done)
		}},
		{"recv-from-closed-in-select-default", func() {
			c := make(chan int)
			go close(c)
			hx.Yield()
			select {
			case _, ok := <-c:
				hx.Outcome("recv ok=%v", ok)
			default:
				hx.Outcome("default")
			}
		}},
		{"atomic-value-two-writers", func() {
			var v atomic.Value
			var wg sync.WaitGroup
			for _, x := range []string{"a", "b"} {
				x := x
				wg.Add(1)
				go func() { defer wg.Done(); v.Store(x) }()
			}
			first, _ := v.Load().(string)
			wg.Wait()
			hx.Outcome("early=%q final=%q", first, v.Load())
		}},
		{"atomic-value-nil-store-panics", func() {
			var v atomic.Value
			p := func() (r any) {
				defer func() { r = recover() }()
				v.Store(nil)
				return nil
			}()
			hx.Outcome("panicked=%v", p != nil)
		}},
		{"cancel-cause", func() {
			ctx, cancel := context.WithCancelCause(context.Background())
			child, stop := context.WithCancel(ctx)
			defer stop()
			go cancel(fmt.Errorf("why"))
			<-child.Done()
			hx.Outcome("err=%v cause=%v", child.Err(), context.Cause(child))
		}},
		{"three-way-handoff-order", func() {
			c := make(chan string)
			for _, s := range []string{"a", "b"} {
				s := s
				go func() { c <- s }()
			}
			hx.Outcome("%s", fmt.Sprint(<-c, <-c))
		}},
	}
}
