package mc

import (
	"fmt"
	"strings"
	"time"
)

// Exec is the result of one complete execution.
type Exec struct {
	Points   []ChoicePoint
	Steps    int
	Outcome  string
	Fail     *Failure
	Deadlock string
	Horizon  bool
	Log      []string
	Misuse   []string
	EndTime  int64
}

// Choices returns the choice sequence of the execution.
func (x *Exec) Choices() []int {
	out := make([]int, len(x.Points))
	for i, p := range x.Points {
		out[i] = p.Chosen
	}
	return out
}

// RunOnce executes body under the given choice prefix (default choice 0 afterwards).
// resets are run before every execution: process-wide state of the shims (e.g. the contents of
// package-level sync.Pools of the code under test) must not leak from one execution into the next,
// or a recorded prefix would not replay.
var resets []func()

// RegisterReset registers f to run before every later execution.
func RegisterReset(f func()) { resets = append(resets, f) }

func RunOnce(body func(), prefix []int, cfg Config) *Exec {
	if s != nil {
		panic("mc: nested execution")
	}
	for _, f := range resets {
		f()
	}
	sc := &sched{yield: make(chan struct{}), prefix: prefix, cfg: cfg, trace: cfg.Trace, maxSteps: cfg.MaxSteps, pendings: map[*thread]*pendingSel{}}
	if sc.maxSteps == 0 {
		sc.maxSteps = 20000
	}
	s = sc
	sc.run(body)
	s = nil
	x := &Exec{Points: sc.points, Steps: sc.steps, Outcome: strings.Join(sc.outcome, " | "), Fail: sc.fail, Deadlock: sc.deadlock, Horizon: sc.horizon, Log: sc.logs, Misuse: sc.misuse, EndTime: sc.now}
	return x
}

// Options configure an exploration.
type Options struct {
	Bound int // preemption bound; < 0 = unbounded
	// SwitchBound limits the number of non-default choices that are NOT preemptions: another thread
	// at a point where the thread that ran last cannot continue (it blocked or finished), another
	// ready select arm, another rendez-vous partner, another environment answer. These are free
	// under preemption bounding, and their combinations are what makes many-thread scenarios
	// explode. Every single such choice is still explored at every point; only the number of them
	// combined in one execution is limited. <= 0 = unlimited.
	SwitchBound int
	Cfg         Config
	Deadline    time.Time
	MaxExecs    int64
	// Sharding: this process explores only the sub-trees it owns. The tree is cut at SplitDepth
	// deviations from the all-default execution.
	Shard, Shards int
	SplitDepth    int
	// AllowDeadlock: a blocked main thread at the end is an outcome, not a failure.
	AllowDeadlock bool
	AllowHorizon  bool
	// Ignore: failures for which it returns true (recorded known findings) are counted in
	// Report.Ignored and the exploration continues below them.
	Ignore func(f *Failure) bool
}

// Found is a failing execution.
type Found struct {
	Failure
	Choices     []int    `json:"choices"`
	Log         []string `json:"log"`
	Preemptions int      `json:"preemptions"`
}

// Report is what one exploration covered.
type Report struct {
	Execs       int64            `json:"execs"`
	Steps       int64            `json:"steps"`
	MaxPoints   int              `json:"max_choice_points"`
	MaxAlts     int              `json:"max_alternatives"`
	Outcomes    map[string]int64 `json:"outcomes"`
	Found       *Found           `json:"found,omitempty"`
	Complete    bool             `json:"complete"`
	Capped      string           `json:"capped,omitempty"`
	Horizons    int64            `json:"horizons"`
	Deadlocks   int64            `json:"deadlocks"`
	SampleTrace []int            `json:"sample_choices,omitempty"`
	Ignored     map[string]int64 `json:"ignored,omitempty"`
}

type frame struct {
	prefix   []int
	gen      int // number of deviations from default choices
	cost     int // preemptions spent in prefix
	switches int // non-default free thread switches spent in prefix
	owned    bool
}

// Explore enumerates, depth first, every execution of body whose number of preemptions does not
// exceed the bound (every execution, if the bound is negative).
func Explore(body func(), opt Options) Report {
	rep := Report{Outcomes: map[string]int64{}, Complete: true}
	if opt.Shards <= 0 {
		opt.Shards = 1
	}
	if opt.SplitDepth <= 0 {
		opt.SplitDepth = 2
	}
	stack := []frame{{owned: opt.Shards == 1}}
	var splitCounter int
	for len(stack) > 0 {
		f := stack[len(stack)-1]
		stack = stack[:len(stack)-1]
		if !opt.Deadline.IsZero() && rep.Execs%64 == 0 && time.Now().After(opt.Deadline) {
			rep.Complete = false
			rep.Capped = "time budget"
			break
		}
		if opt.MaxExecs > 0 && rep.Execs >= opt.MaxExecs {
			rep.Complete = false
			rep.Capped = fmt.Sprintf("execution cap %d", opt.MaxExecs)
			break
		}
		x := RunOnce(body, f.prefix, opt.Cfg)
		count := f.owned || (opt.Shard == 0)
		if count {
			rep.Execs++
			rep.Steps += int64(x.Steps)
			if len(x.Points) > rep.MaxPoints {
				rep.MaxPoints = len(x.Points)
			}
			if x.Horizon {
				rep.Horizons++
			}
			if x.Deadlock != "" {
				rep.Deadlocks++
			}
			if len(rep.Outcomes) < 4096 {
				key := x.Outcome
				if x.Deadlock != "" {
					key += " | DEADLOCK"
				}
				rep.Outcomes[key]++
			}
			if rep.SampleTrace == nil && len(x.Points) > 3 && f.gen >= 1 {
				rep.SampleTrace = x.Choices()
			}
		}
		fail := x.Fail
		if fail == nil && x.Deadlock != "" && !opt.AllowDeadlock {
			fail = &Failure{Sig: "deadlock", Detail: "no thread can run and no timer is pending, main has not returned; blocked: " + x.Deadlock}
		}
		if fail == nil && x.Horizon && !opt.AllowHorizon {
			fail = &Failure{Sig: "horizon", Detail: fmt.Sprintf("execution did not finish within %d steps (livelock or unbounded polling)", x.Steps)}
		}
		if fail == nil && len(x.Misuse) > 0 {
			fail = &Failure{Sig: "misuse", Detail: strings.Join(x.Misuse, "; ")}
		}
		if fail != nil && opt.Ignore != nil && opt.Ignore(fail) {
			if count {
				if rep.Ignored == nil {
					rep.Ignored = map[string]int64{}
				}
				rep.Ignored[fail.Sig]++
			}
			fail = nil
		}
		if fail != nil && count {
			// determinism self-check: the same schedule must fail the same way, every time
			ch := x.Choices()
			cfg := opt.Cfg
			cfg.Trace = true
			var logs []string
			for i := 0; i < 3; i++ {
				y := RunOnce(body, ch, cfg)
				yf := y.Fail
				if yf == nil && y.Deadlock != "" {
					yf = &Failure{Sig: "deadlock"}
				}
				if yf == nil && y.Horizon {
					yf = &Failure{Sig: "horizon"}
				}
				if yf == nil && len(y.Misuse) > 0 {
					yf = &Failure{Sig: "misuse"}
				}
				if yf == nil || yf.Sig != fail.Sig || y.Outcome != x.Outcome {
					panic(fmt.Sprintf("mc: NON-DETERMINISTIC replay of a failing schedule (first %q/%q, then %v/%q): the harness does not own all nondeterminism", fail.Sig, x.Outcome, yf, y.Outcome))
				}
				logs = y.Log
			}
			pre := 0
			for _, p := range x.Points {
				if p.Preempt[p.Chosen] {
					pre++
				}
			}
			rep.Found = &Found{Failure: *fail, Choices: ch, Log: logs, Preemptions: pre}
			rep.Complete = false
			break
		}
		// children, pushed in reverse so that the earliest deviation is explored first
		var kids []frame
		cost := f.cost
		for i := 0; i < len(x.Points); i++ {
			p := x.Points[i]
			if i < len(f.prefix) {
				continue
			}
			if p.N > rep.MaxAlts {
				rep.MaxAlts = p.N
			}
			for alt := 1; alt < p.N; alt++ {
				c := cost
				if p.Preempt[alt] {
					c++
				}
				if opt.Bound >= 0 && c > opt.Bound {
					continue
				}
				sw := f.switches
				if !p.Preempt[alt] {
					// every non-default choice that is not a preemption: another thread at a point
					// where the last one cannot continue, another ready select arm, another
					// rendez-vous partner, another random-source answer
					sw++
				}
				if opt.SwitchBound > 0 && sw > opt.SwitchBound {
					continue
				}
				child := frame{gen: f.gen + 1, cost: c, switches: sw, owned: f.owned}
				if !f.owned && child.gen == opt.SplitDepth {
					child.owned = splitCounter%opt.Shards == opt.Shard
					splitCounter++
					if !child.owned {
						continue
					}
				}
				child.prefix = make([]int, i+1)
				for k := 0; k < i; k++ {
					child.prefix[k] = x.Points[k].Chosen
				}
				child.prefix[i] = alt
				kids = append(kids, child)
			}
			// the default continuation at point i costs nothing extra (alternative 0 never preempts)
		}
		for i := len(kids) - 1; i >= 0; i-- {
			stack = append(stack, kids[i])
		}
	}
	return rep
}
