package mc_test

import (
	"fmt"
	"sort"
	"strings"
	"testing"

	"verif/mc"
	"verif/mc/shim/atomic"
	"verif/mc/shim/context"
	"verif/mc/shim/sync"
	"verif/mc/shim/time"
)

func outcomes(r mc.Report) string {
	var ks []string
	for k := range r.Outcomes {
		ks = append(ks, k)
	}
	sort.Strings(ks)
	return strings.Join(ks, " ; ")
}

func TestPingPong(t *testing.T) {
	r := mc.Explore(func() {
		c := mc.MakeChan[int](0)
		mc.Go(func() { c.Send(1); c.Send(2) })
		a := c.Recv()
		b := c.Recv()
		mc.Outcome("%d%d", a, b)
	}, mc.Options{Bound: -1})
	if r.Found != nil || outcomes(r) != "12" {
		t.Fatalf("%+v %s", r.Found, outcomes(r))
	}
	t.Logf("execs=%d", r.Execs)
}

func TestLostUpdate(t *testing.T) {
	body := func() {
		var x int32
		var wg sync.WaitGroup
		wg.Add(2)
		for i := 0; i < 2; i++ {
			mc.Go(func() {
				defer wg.Done()
				v := atomic.LoadInt32(&x)
				atomic.StoreInt32(&x, v+1)
			})
		}
		wg.Wait()
		mc.Outcome("%d", x)
	}
	r0 := mc.Explore(body, mc.Options{Bound: 0})
	r1 := mc.Explore(body, mc.Options{Bound: 1})
	ru := mc.Explore(body, mc.Options{Bound: -1})
	if outcomes(r0) != "2" || outcomes(r1) != "1 ; 2" || outcomes(ru) != "1 ; 2" {
		t.Fatalf("%s | %s | %s", outcomes(r0), outcomes(r1), outcomes(ru))
	}
	t.Logf("execs %d %d %d", r0.Execs, r1.Execs, ru.Execs)
}

func TestDeadlock(t *testing.T) {
	r := mc.Explore(func() {
		c := mc.MakeChan[int](0)
		c.Recv()
	}, mc.Options{Bound: -1})
	if r.Found == nil || r.Found.Sig != "deadlock" {
		t.Fatalf("%+v", r)
	}
}

func TestSelectBothArms(t *testing.T) {
	r := mc.Explore(func() {
		a := mc.MakeChan[int](1)
		b := mc.MakeChan[int](1)
		a.Send(1)
		b.Send(2)
		res := mc.Select(false, mc.RecvCase(a), mc.RecvCase(b))
		mc.Outcome("arm%d", res.Index)
	}, mc.Options{Bound: 0})
	if outcomes(r) != "arm0 ; arm1" {
		t.Fatal(outcomes(r))
	}
}

func TestSelectDefaultVsRendezvous(t *testing.T) {
	// A non-blocking send to an unbuffered channel with a receiver that may or may not be parked.
	r := mc.Explore(func() {
		c := mc.MakeChan[int](0)
		got := mc.MakeChan[int](1)
		mc.Go(func() {
			res := mc.Select(false, mc.RecvCase(c), mc.RecvCase(got))
			_ = res
		})
		res := mc.Select(true, mc.SendCase(c, 1))
		mc.Outcome("sent=%v", res.Index == 0)
		got.Send(1)
	}, mc.Options{Bound: -1, AllowDeadlock: true})
	if outcomes(r) != "sent=false ; sent=true" {
		t.Fatal(outcomes(r))
	}
}

func TestTimerVsSend(t *testing.T) {
	for mode := 0; mode < 2; mode++ {
		r := mc.Explore(func() {
			c := mc.MakeChan[int](0)
			mc.Go(func() { c.Send(1) })
			tm := time.NewTimer(5 * time.Millisecond)
			res := mc.Select(false, mc.RecvCase(c), mc.RecvCase(tm.C))
			stopped := tm.Stop()
			mc.Outcome("arm%d stopped=%v now=%v", res.Index, stopped, time.Since(time.Unix(0, 0).Add(time.Since(time.Unix(0, 0)))) == 0)
		}, mc.Options{Bound: -1, Cfg: mc.Config{TimerMode: mode}, AllowDeadlock: true})
		t.Logf("mode %d: %s execs=%d", mode, outcomes(r), r.Execs)
		if r.Found != nil {
			t.Fatalf("%+v", r.Found)
		}
	}
}

func TestContextCancel(t *testing.T) {
	r := mc.Explore(func() {
		ctx, cancel := context.WithCancel(context.Background())
		child, _ := context.WithTimeout(ctx, 10*time.Millisecond)
		mc.Go(func() { cancel() })
		res := mc.Select(false, mc.RecvCase(child.Done()))
		_ = res
		mc.Outcome("%v", child.Err())
	}, mc.Options{Bound: -1})
	if outcomes(r) != "context canceled ; context deadline exceeded" {
		t.Fatal(outcomes(r))
	}
}

func TestMutexAndCond(t *testing.T) {
	r := mc.Explore(func() {
		var m sync.Mutex
		c := sync.NewCond(&m)
		ready := false
		var order []int
		var wg sync.WaitGroup
		wg.Add(2)
		mc.Go(func() {
			defer wg.Done()
			m.Lock()
			for !ready {
				c.Wait()
			}
			order = append(order, 1)
			m.Unlock()
		})
		mc.Go(func() {
			defer wg.Done()
			m.Lock()
			ready = true
			order = append(order, 2)
			c.Signal()
			m.Unlock()
		})
		wg.Wait()
		mc.Outcome("%v", order)
	}, mc.Options{Bound: -1})
	if r.Found != nil || outcomes(r) != "[2 1]" {
		t.Fatalf("%+v %s", r.Found, outcomes(r))
	}
	t.Logf("execs=%d", r.Execs)
}

func TestFailIsReplayable(t *testing.T) {
	r := mc.Explore(func() {
		var x int32
		done := mc.MakeChan[struct{}](0)
		mc.Go(func() { atomic.StoreInt32(&x, 1); done.Close() })
		if atomic.LoadInt32(&x) == 1 {
			mc.Fail("saw-one", "x=%d", x)
		}
		done.Recv()
	}, mc.Options{Bound: 2})
	if r.Found == nil || r.Found.Sig != "saw-one" {
		t.Fatalf("%+v", r)
	}
	fmt.Println(r.Found.Choices, r.Found.Preemptions, len(r.Found.Log))
}
