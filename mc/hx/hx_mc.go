//go:build mcbuild

// Package hx is what scenario bodies use to talk to the harness. This is the implementation on the
// mc runtime (controlled scheduler); hx_native.go is the free-running one with the same API.
package hx

import (
	"time"
	shimsync "verif/mc/shim/sync"

	"verif/mc"
)

const Controlled = true

// Yield is a pure scheduling point. Placed inside user callbacks it makes every relative order of
// callback starts and ends reachable ("all latency patterns") without real sleeping.
func Yield() { mc.Point("hx.Yield") }

// Choose is an environment answer in [0,n) enumerated by the explorer.
func Choose(what string, n int) int { return mc.Choose(what, n) }

func Outcome(format string, a ...any) { mc.Outcome(format, a...) }

func Fail(sig, format string, a ...any) { mc.Fail(sig, format, a...) }

func Logf(format string, a ...any) { mc.Logf(format, a...) }

// Quiesce blocks until no other thread can make progress and no timer is pending (virtual time is
// allowed to pass first).
func Quiesce() { mc.Quiesce(false) }

// QuiesceNow blocks until no other thread can make progress at the current instant; pending timers
// do not fire first.
func QuiesceNow() { mc.Quiesce(true) }

// Sleep is a virtual sleep.
func Sleep(d time.Duration) { mc.Sleep(int64(d)) }

// Now is the virtual time since the start of the execution.
func Now() time.Duration { return time.Duration(mc.Now()) }

// Live lists the unfinished threads other than the caller.
func Live() []string { return mc.Live() }

func AtEnd(f func()) { mc.AtEnd(f) }

func ThreadID() int { return mc.ThreadID() }

// NoBlock runs f, which must never block.
func NoBlock(what string, f func()) { mc.NoBlock(what, f) }

// Atomically runs f as one atomic step (it already is under the controlled scheduler).
func Atomically(f func()) { f() }

// Locker is a mutex whose ownership oracles can inspect. Shared: it is the read side of a
// reader/writer lock (like sync.RWMutex.RLocker()), so several threads can hold it at once.
type Locker struct {
	m        shimsync.Mutex
	rw       shimsync.RWMutex
	Shared   bool
	owner    int
	holders  map[int]int
	Unlocks  int
	OnUnlock func()
}

func (l *Locker) Lock() {
	if l.Shared {
		l.rw.RLock()
		if l.holders == nil {
			l.holders = map[int]int{}
		}
		l.holders[mc.ThreadID()]++
		return
	}
	l.m.Lock()
	l.owner = mc.ThreadID()
}

func (l *Locker) Unlock() {
	if l.Shared {
		l.holders[mc.ThreadID()]--
		l.rw.RUnlock()
	} else {
		l.owner = -1
		l.m.Unlock()
	}
	l.Unlocks++
	if l.OnUnlock != nil {
		l.OnUnlock()
	}
}

// ClearOnUnlock removes the OnUnlock callback.
func (l *Locker) ClearOnUnlock() { l.OnUnlock = nil }

// HeldByMe reports whether the calling thread holds the lock.
func (l *Locker) HeldByMe() bool {
	if l.Shared {
		return l.holders[mc.ThreadID()] > 0
	}
	return l.m.Held() && l.owner == mc.ThreadID()
}

// Sends returns how many values were ever sent on channel c (-1 if unknown).
func Sends(c any) int {
	if x, ok := c.(interface{ Sends() int }); ok {
		return x.Sends()
	}
	return -1
}
