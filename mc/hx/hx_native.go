//go:build !mcbuild

// Free-running implementation of the hx API: real goroutines, real time. Used for the conformance
// and -race side passes, never for a verdict on a property.
package hx

import (
	"fmt"
	"math/rand"
	"runtime"
	"sync"
	"sync/atomic"
	"time"
)

const Controlled = false

var (
	mu       sync.Mutex
	outcome  []string
	failures []string
	start    = time.Now()
	atEnd    []func()
)

// Reset starts a new free-running execution.
func Reset() {
	mu.Lock()
	outcome, failures, atEnd = nil, nil, nil
	start = time.Now()
	mu.Unlock()
}

// Result returns outcome signature and failures of the execution.
func Result() (string, []string) {
	mu.Lock()
	defer mu.Unlock()
	s := ""
	for i, o := range outcome {
		if i > 0 {
			s += " | "
		}
		s += o
	}
	return s, failures
}

func Yield() {
	if rand.Intn(4) == 0 {
		time.Sleep(time.Duration(rand.Intn(50)) * time.Microsecond)
	} else {
		runtime.Gosched()
	}
}

func Choose(what string, n int) int { return rand.Intn(n) }

func Outcome(format string, a ...any) {
	mu.Lock()
	outcome = append(outcome, fmt.Sprintf(format, a...))
	mu.Unlock()
}

func Fail(sig, format string, a ...any) {
	mu.Lock()
	failures = append(failures, sig+": "+fmt.Sprintf(format, a...))
	mu.Unlock()
	runtime.Goexit()
}

func Logf(format string, a ...any) {}

func Quiesce()    { time.Sleep(20 * time.Millisecond) }
func QuiesceNow() { time.Sleep(2 * time.Millisecond) }

func Sleep(d time.Duration) { time.Sleep(d) }

func Now() time.Duration {
	mu.Lock()
	s := start
	mu.Unlock()
	return time.Since(s)
}

func Live() []string { return nil }

func AtEnd(f func()) {}

func ThreadID() int { return 0 }

func NoBlock(what string, f func()) { f() }

var atomMu sync.Mutex

// Atomically runs f under a global mutex.
func Atomically(f func()) { atomMu.Lock(); defer atomMu.Unlock(); f() }

// Locker is a mutex whose ownership oracles can inspect (free-running version: ownership is
// tracked per goroutine through a token the caller does not see, so HeldByMe is approximate).
type Locker struct {
	m        sync.Mutex
	rw       sync.RWMutex
	Shared   bool
	held     atomic.Int32
	Unlocks  int
	OnUnlock func() // set before the lock is shared; removed only through ClearOnUnlock
}

func (l *Locker) Lock() {
	if l.Shared {
		l.rw.RLock()
	} else {
		l.m.Lock()
	}
	l.held.Add(1)
}

func (l *Locker) Unlock() {
	l.held.Add(-1)
	if l.Shared {
		l.rw.RUnlock()
	} else {
		l.m.Unlock()
	}
	atomMu.Lock()
	l.Unlocks++
	f := l.OnUnlock
	atomMu.Unlock()
	if f != nil {
		f()
	}
}

// ClearOnUnlock removes the OnUnlock callback.
func (l *Locker) ClearOnUnlock() { atomMu.Lock(); l.OnUnlock = nil; atomMu.Unlock() }

func (l *Locker) HeldByMe() bool { return l.held.Load() > 0 }

func Sends(c any) int { return -1 }
