// Package mc is engine E2's deterministic cooperative runtime: exactly one goroutine ("thread") runs
// at a time, every synchronisation operation of the transformed code is a scheduling point, and the
// scheduler's decisions (which thread, which ready select arm, which rendez-vous partner, whether
// the clock advances, which value a random source returns) are taken from an explicit choice
// sequence that the explorer (explore.go) enumerates.
//
// The runtime is process-global by design (shim operations find it through a package variable);
// parallelism is by process (see explore.go).
package mc

import (
	"fmt"
	"runtime"
	"sort"
	"strings"
	"sync"
)

// ---------------------------------------------------------------------------------------------
// threads and the scheduler

type thread struct {
	id     int
	name   string
	resume chan int // scheduler -> thread: chosen alternative
	// pending operation: alts() returns the number of currently enabled alternatives (0 = blocked).
	alts func() int
	// human readable description of the pending operation (deadlock reports, traces)
	what string
	// set while the thread is inside an operation that must never park (TrySend etc.)
	done    bool
	started bool
	isMain  bool
	// completed by a partner (rendez-vous): the thread's own alternative is fixed
	fixed    bool
	fixedAlt int
	daemon   bool
	// parked in Quiesce: never counts as "able to make progress" for another Quiesce
	quiescing bool
	// inside a call that is documented never to block (TrySend): being disabled is a failure
	noblock string
}

// A ChoicePoint records one scheduling decision of an execution.
type ChoicePoint struct {
	N       int    // number of alternatives
	Chosen  int    // alternative taken
	Preempt []bool // Preempt[i]: taking alternative i switches away from a runnable thread
	// OtherThread[i]: alternative i runs a different thread (or the clock) than alternative 0
	OtherThread []bool
	Step        int
}

type abortSignal struct{}

type sched struct {
	threads []*thread
	cur     *thread
	yield   chan struct{} // thread -> scheduler: parked with a pending op (or finished)
	wg      sync.WaitGroup

	// choice handling
	prefix []int
	points []ChoicePoint
	steps  int

	// virtual time
	now    int64
	timers []*vtimer
	tseq   int

	aborting bool
	failing  bool
	// results
	outcome  []string
	fail     *Failure
	logs     []string
	trace    bool
	misuse   []string
	maxSteps int
	horizon  bool
	deadlock string
	// configuration visible to shims
	cfg Config
	// last running thread (for preemption accounting)
	last *thread
	// objects
	nextObj  int
	pendings map[*thread]*pendingSel
	atEnd    []func()
	mainRet  bool
	panics   []string
}

// Config are the knobs a scenario/explorer sets for one execution.
type Config struct {
	GOMAXPROCS int
	// 0: Go <= 1.22 timer channels (buffered, Stop/Reset do not drain); 1: Go 1.23 (Stop/Reset drain).
	TimerMode int
	MaxSteps  int
	Trace     bool
	// IdleClock: virtual time only passes when no thread can run (threads are never "slow").
	// Used by scenarios whose oracle is a progress statement, which cannot hold against a thread
	// that is starved for arbitrarily long.
	IdleClock bool
}

// Failure is a property violation detected by the scenario (or a deadlock / horizon hit).
type Failure struct {
	Sig    string
	Detail string
}

var s *sched

// Inside reports whether the calling code runs under the controlled scheduler.
func Inside() bool { return s != nil }

func cur() *thread { return s.cur }

// park publishes the pending operation of the running thread and hands control to the scheduler.
// It returns the alternative the scheduler chose.
func park(what string, alts func() int) int {
	t := s.cur
	if s.aborting || s.failing {
		runtime.Goexit()
	}
	t.alts = alts
	t.what = what
	s.yield <- struct{}{}
	alt := <-t.resume
	if s.aborting {
		runtime.Goexit()
	}
	t.alts = nil
	return alt
}

// Point is a pure scheduling point: always enabled, no effect.
func Point(what string) {
	if s == nil {
		return
	}
	park(what, func() int { return 1 })
}

// WaitUntil blocks the running thread until cond holds (evaluated by the scheduler).
func WaitUntil(what string, cond func() bool) {
	park(what, func() int {
		if cond() {
			return 1
		}
		return 0
	})
}

// Choose is an explorer-controlled environment answer in [0,n).
func Choose(what string, n int) int {
	if n <= 1 {
		return 0
	}
	return park("choose:"+what, func() int { return n })
}

// Go starts a new thread.
func Go(f func()) { GoNamed("", f) }

func GoNamed(name string, f func()) {
	if s == nil {
		go f()
		return
	}
	Point("go")
	spawn(name, f, false)
}

func spawn(name string, f func(), main bool) *thread {
	t := &thread{id: len(s.threads), name: name, resume: make(chan int), isMain: main}
	s.threads = append(s.threads, t)
	// A new thread's first "operation" is starting: always enabled.
	t.alts = func() int { return 1 }
	t.what = "start"
	s.wg.Add(1)
	go func() {
		defer s.wg.Done()
		<-t.resume
		if s.aborting {
			return
		}
		t.started = true
		t.alts = nil
		defer func() {
			if p := recover(); p != nil {
				if _, ok := p.(abortSignal); !ok && !s.aborting {
					s.panics = append(s.panics, fmt.Sprintf("thread %d (%s): %v", t.id, t.name, p))
					if s.fail == nil {
						s.fail = &Failure{Sig: "panic", Detail: fmt.Sprintf("thread %d (%s) panicked: %v\n%s", t.id, t.name, p, stack())}
					}
				}
			}
			t.done = true
			if t.isMain {
				s.mainRet = true
			}
			if !s.aborting {
				s.yield <- struct{}{}
			}
		}()
		f()
	}()
	return t
}

func stack() string {
	buf := make([]byte, 8192)
	n := runtime.Stack(buf, false)
	lines := strings.Split(string(buf[:n]), "\n")
	if len(lines) > 40 {
		lines = lines[:40]
	}
	return strings.Join(lines, "\n")
}

// ---------------------------------------------------------------------------------------------
// virtual time

type vtimer struct {
	when   int64
	seq    int
	fire   func() // runs in the clock's context (a scheduler step): must not park
	active bool
	what   string
}

func addTimer(d int64, what string, fire func()) *vtimer {
	if d < 0 {
		d = 0
	}
	s.tseq++
	when := s.now + d
	if when < s.now { // saturate like the real runtime does (when < 0 => maxWhen)
		when = 1<<63 - 1
	}
	t := &vtimer{when: when, seq: s.tseq, fire: fire, active: true, what: what}
	s.timers = append(s.timers, t)
	return t
}

func (t *vtimer) stop() bool {
	was := t.active
	t.active = false
	for i, x := range s.timers {
		if x == t {
			s.timers = append(s.timers[:i], s.timers[i+1:]...)
			break
		}
	}
	return was
}

func nextTimer() *vtimer {
	var best *vtimer
	for _, t := range s.timers {
		if best == nil || t.when < best.when || (t.when == best.when && t.seq < best.seq) {
			best = t
		}
	}
	return best
}

// Now is the virtual clock in nanoseconds since the start of the execution.
func Now() int64 { return s.now }

// ---------------------------------------------------------------------------------------------
// the scheduling loop

type alt struct {
	t *thread // nil = clock
	i int
}

func (sc *sched) enabled() []alt {
	var out []alt
	add := func(t *thread) {
		if t.done {
			return
		}
		if t.fixed {
			out = append(out, alt{t, t.fixedAlt})
			return
		}
		if t.alts == nil {
			return
		}
		n := t.alts()
		if n == 0 && t.noblock != "" && sc.fail == nil {
			sc.fail = &Failure{Sig: "blocked-in-nonblocking-call", Detail: fmt.Sprintf("thread %d parked at %s inside %s, which must never block", t.id, t.what, t.noblock)}
		}
		for i := 0; i < n; i++ {
			out = append(out, alt{t, i})
		}
	}
	// canonical order: the thread that ran last first, then ascending ids
	if sc.last != nil {
		add(sc.last)
	}
	for _, t := range sc.threads {
		if t != sc.last {
			add(t)
		}
	}
	return out
}

// run executes one complete execution under the given choice prefix.
func (sc *sched) run(body func()) {
	main := spawn("main", body, true)
	_ = main
	for {
		en := sc.enabled()
		if sc.fail != nil {
			break
		}
		// quiescence-aware operations (Quiesce) look at this
		hasTimer := len(sc.timers) > 0
		nThreadAlts := len(en)
		if hasTimer && !(sc.cfg.IdleClock && nThreadAlts > 0) {
			en = append(en, alt{nil, 0})
		}
		if len(en) == 0 {
			break
		}
		sc.steps++
		if sc.maxSteps > 0 && sc.steps > sc.maxSteps {
			sc.horizon = true
			break
		}
		choice := 0
		if len(en) > 1 {
			cp := ChoicePoint{N: len(en), Step: sc.steps, Preempt: make([]bool, len(en)), OtherThread: make([]bool, len(en))}
			lastEnabled := sc.last != nil && nThreadAlts > 0 && en[0].t == sc.last
			for i, a := range en {
				cp.OtherThread[i] = a.t != en[0].t
				if a.t == nil {
					// letting time pass while a thread could run models "that thread was slow"
					cp.Preempt[i] = nThreadAlts > 0
				} else {
					cp.Preempt[i] = lastEnabled && a.t != sc.last
				}
			}
			k := len(sc.points)
			if k < len(sc.prefix) {
				choice = sc.prefix[k]
				if choice >= len(en) {
					panic(fmt.Sprintf("mc: replay diverged at choice point %d: prefix wants alternative %d of %d", k, choice, len(en)))
				}
			}
			cp.Chosen = choice
			sc.points = append(sc.points, cp)
		}
		a := en[choice]
		if a.t == nil {
			tm := nextTimer()
			if tm.when > sc.now {
				sc.now = tm.when
			}
			tm.stop()
			if sc.trace {
				sc.logs = append(sc.logs, fmt.Sprintf("  [clock -> %d] %s", sc.now, tm.what))
			}
			tm.fire()
			continue
		}
		t := a.t
		if sc.trace {
			sc.logs = append(sc.logs, fmt.Sprintf("  [t%d %s] %s #%d", t.id, t.name, t.what, a.i))
		}
		t.fixed = false
		sc.cur = t
		sc.last = t
		t.resume <- a.i
		<-sc.yield
		sc.cur = nil
		if sc.fail != nil {
			break
		}
	}
	// classify the end state
	if sc.fail == nil && !sc.horizon {
		var blocked []string
		for _, t := range sc.threads {
			if !t.done && !t.daemon {
				blocked = append(blocked, fmt.Sprintf("t%d(%s) at %s", t.id, t.name, t.what))
			}
		}
		if !sc.mainRet {
			sc.deadlock = strings.Join(blocked, "; ")
		}
	}
	for _, f := range sc.atEnd {
		if sc.fail == nil && !sc.horizon && sc.deadlock == "" {
			f()
		}
	}
	// tear down: every parked thread leaves through Goexit
	sc.aborting = true
	for _, t := range sc.threads {
		if !t.done {
			select {
			case t.resume <- 0:
			default:
				// thread is not parked on resume (cannot happen: only the current thread runs)
				go func(t *thread) { t.resume <- 0 }(t)
			}
		}
	}
	sc.wg.Wait()
}

// ---------------------------------------------------------------------------------------------
// scenario-facing helpers

// Fail records a violation and ends the execution.
func Fail(sig, format string, a ...any) {
	if s == nil {
		panic(fmt.Sprintf("violation %s: %s", sig, fmt.Sprintf(format, a...)))
	}
	if s.fail == nil {
		s.fail = &Failure{Sig: sig, Detail: fmt.Sprintf(format, a...)}
	}
	// stop this thread; the scheduler loop ends the execution. Deferred calls of the thread that
	// reach a scheduling point leave through Goexit (see park).
	s.failing = true
	panic(abortSignal{})
}

// Outcome adds to the observable outcome signature of this execution.
func Outcome(format string, a ...any) {
	s.outcome = append(s.outcome, fmt.Sprintf(format, a...))
}

// Logf adds a line to the execution log (kept only when tracing).
func Logf(format string, a ...any) {
	if s != nil && s.trace {
		s.logs = append(s.logs, fmt.Sprintf("    t%d: ", s.cur.id)+fmt.Sprintf(format, a...))
	}
}

// AtEnd registers a check that runs when the execution has ended normally (main returned and the
// system is quiescent).
func AtEnd(f func()) { s.atEnd = append(s.atEnd, f) }

// Live returns the threads that have not finished, other than the caller.
func Live() []string {
	var out []string
	for _, t := range s.threads {
		if !t.done && t != s.cur {
			out = append(out, fmt.Sprintf("t%d(%s) at %s", t.id, t.name, t.what))
		}
	}
	return out
}

// Quiesce blocks the caller until no other thread can make progress. If withTimers is false it also
// waits until no timer is pending (time is allowed to pass first).
func Quiesce(stopClock bool) {
	me := s.cur
	me.quiescing = true
	defer func() { me.quiescing = false }()
	park("quiesce", func() int {
		if !stopClock && len(s.timers) > 0 {
			return 0
		}
		for _, t := range s.threads {
			if t == me || t.done || t.quiescing {
				continue
			}
			if t.fixed || (t.alts != nil && t.alts() > 0) {
				return 0
			}
		}
		return 1
	})
}

// Sleep blocks the caller for d nanoseconds of virtual time.
func Sleep(d int64) {
	if d <= 0 {
		Point("sleep0")
		return
	}
	fired := false
	addTimer(d, "sleep", func() { fired = true })
	WaitUntil("sleeping", func() bool { return fired })
}

// Misuse reports API misuse detected by the shims (e.g. WaitGroup reuse).
func Misuse() []string { return s.misuse }

// NoteMisuse is called by the shims.
func NoteMisuse(m string) { s.misuse = append(s.misuse, m) }

func GOMAXPROCS(n int) int {
	if s == nil {
		return runtime.GOMAXPROCS(n)
	}
	if s.cfg.GOMAXPROCS > 0 {
		return s.cfg.GOMAXPROCS
	}
	return 2
}

func TimerMode() int { return s.cfg.TimerMode }

// ThreadID identifies the running thread.
func ThreadID() int { return s.cur.id }

// SetDaemon marks the current thread as one whose being blocked at the end is not a deadlock.
func sortStrings(x []string) []string { sort.Strings(x); return x }

// VTimer is a timer on the virtual clock (for the time and context shims).
type VTimer struct{ t *vtimer }

// AddTimer registers fire to run (as a scheduler step, it must not park) d nanoseconds from now.
func AddTimer(d int64, what string, fire func()) *VTimer { return &VTimer{addTimer(d, what, fire)} }

// Stop deactivates the timer and reports whether it was still pending.
func (v *VTimer) Stop() bool { return v.t.stop() }

// SpawnFromClock starts a thread from a timer callback (time.AfterFunc semantics).
func SpawnFromClock(name string, f func()) { spawn(name, f, false) }

// NoBlock runs f and reports a failure if the calling thread ever parks without an enabled
// alternative inside it (for calls documented never to block).
func NoBlock(what string, f func()) {
	t := s.cur
	t.noblock = what
	defer func() { t.noblock = "" }()
	f()
}

// After is a scheduling point placed right after a releasing / publishing operation (close, unlock,
// atomic write, cancel, WaitGroup.Done). It separates the operation from the plain code that follows
// it, so that "publish, then write the data the publication guards" is explored with another thread
// running in between, although the write itself is not a synchronisation operation.
func After(what string) {
	if s == nil {
		return
	}
	park("after-"+what, func() int { return 1 })
}
