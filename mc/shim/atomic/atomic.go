// Package atomic is the model of the subset of sync/atomic that the transformed code uses: every
// operation is one scheduling point followed by its (trivially atomic) effect.
package atomic

import "verif/mc"

func AddInt32(addr *int32, delta int32) int32 {
	mc.Point("atomic.AddInt32")
	*addr += delta
	v := *addr
	mc.After("atomic")
	return v
}

func AddUint32(addr *uint32, delta uint32) uint32 {
	mc.Point("atomic.AddUint32")
	*addr += delta
	v := *addr
	mc.After("atomic")
	return v
}

func AddInt64(addr *int64, delta int64) int64 {
	mc.Point("atomic.AddInt64")
	*addr += delta
	v := *addr
	mc.After("atomic")
	return v
}

func LoadInt32(addr *int32) int32    { mc.Point("atomic.LoadInt32"); return *addr }
func LoadUint32(addr *uint32) uint32 { mc.Point("atomic.LoadUint32"); return *addr }
func LoadInt64(addr *int64) int64    { mc.Point("atomic.LoadInt64"); return *addr }

func StoreInt32(addr *int32, v int32) { mc.Point("atomic.StoreInt32"); *addr = v; mc.After("atomic") }
func StoreUint32(addr *uint32, v uint32) {
	mc.Point("atomic.StoreUint32")
	*addr = v
	mc.After("atomic")
}
func StoreInt64(addr *int64, v int64) { mc.Point("atomic.StoreInt64"); *addr = v; mc.After("atomic") }

func CompareAndSwapInt32(addr *int32, old, new int32) bool {
	mc.Point("atomic.CompareAndSwapInt32")
	if *addr == old {
		*addr = new
		mc.After("atomic")
		return true
	}
	return false
}

func CompareAndSwapUint32(addr *uint32, old, new uint32) bool {
	mc.Point("atomic.CompareAndSwapUint32")
	if *addr == old {
		*addr = new
		mc.After("atomic")
		return true
	}
	return false
}

type Pointer[T any] struct{ p *T }

func (x *Pointer[T]) Load() *T { mc.Point("atomic.Pointer.Load"); return x.p }

func (x *Pointer[T]) Store(v *T) { mc.Point("atomic.Pointer.Store"); x.p = v; mc.After("atomic") }

func (x *Pointer[T]) Swap(v *T) *T {
	mc.Point("atomic.Pointer.Swap")
	old := x.p
	x.p = v
	mc.After("atomic")
	return old
}

func (x *Pointer[T]) CompareAndSwap(old, new *T) bool {
	mc.Point("atomic.Pointer.CompareAndSwap")
	if x.p == old {
		x.p = new
		mc.After("atomic")
		return true
	}
	return false
}

type Int32 struct{ v int32 }

func (x *Int32) Load() int32   { mc.Point("atomic.Int32.Load"); return x.v }
func (x *Int32) Store(v int32) { mc.Point("atomic.Int32.Store"); x.v = v; mc.After("atomic") }
func (x *Int32) Add(d int32) int32 {
	mc.Point("atomic.Int32.Add")
	x.v += d
	r := x.v
	mc.After("atomic")
	return r
}

type Int64 struct{ v int64 }

func (x *Int64) Load() int64   { mc.Point("atomic.Int64.Load"); return x.v }
func (x *Int64) Store(v int64) { mc.Point("atomic.Int64.Store"); x.v = v; mc.After("atomic") }
func (x *Int64) Add(d int64) int64 {
	mc.Point("atomic.Int64.Add")
	x.v += d
	r := x.v
	mc.After("atomic")
	return r
}

type Bool struct{ v bool }

func (x *Bool) Load() bool   { mc.Point("atomic.Bool.Load"); return x.v }
func (x *Bool) Store(v bool) { mc.Point("atomic.Bool.Store"); x.v = v; mc.After("atomic") }
