// Package atomic is the model of the subset of sync/atomic that the transformed code uses: every
// operation is one scheduling point followed by its (trivially atomic) effect.
package atomic

import (
	"reflect"

	"verif/mc"
)

func fmtType(v any) reflect.Type { return reflect.TypeOf(v) }

func AddInt32(addr *int32, delta int32) int32 {
	mc.Point("atomic.AddInt32")
	*addr += delta
	v := *addr
	mc.After("atomic")
	return v
}

func AddUint32(addr *uint32, delta uint32) uint32 {
	mc.Point("atomic.AddUint32")
	*addr += delta
	v := *addr
	mc.After("atomic")
	return v
}

func AddInt64(addr *int64, delta int64) int64 {
	mc.Point("atomic.AddInt64")
	*addr += delta
	v := *addr
	mc.After("atomic")
	return v
}

func LoadInt32(addr *int32) int32    { mc.Point("atomic.LoadInt32"); return *addr }
func LoadUint32(addr *uint32) uint32 { mc.Point("atomic.LoadUint32"); return *addr }
func LoadInt64(addr *int64) int64    { mc.Point("atomic.LoadInt64"); return *addr }

func StoreInt32(addr *int32, v int32) { mc.Point("atomic.StoreInt32"); *addr = v; mc.After("atomic") }
func StoreUint32(addr *uint32, v uint32) {
	mc.Point("atomic.StoreUint32")
	*addr = v
	mc.After("atomic")
}
func StoreInt64(addr *int64, v int64) { mc.Point("atomic.StoreInt64"); *addr = v; mc.After("atomic") }

func CompareAndSwapInt32(addr *int32, old, new int32) bool {
	mc.Point("atomic.CompareAndSwapInt32")
	if *addr == old {
		*addr = new
		mc.After("atomic")
		return true
	}
	return false
}

func CompareAndSwapUint32(addr *uint32, old, new uint32) bool {
	mc.Point("atomic.CompareAndSwapUint32")
	if *addr == old {
		*addr = new
		mc.After("atomic")
		return true
	}
	return false
}

type Pointer[T any] struct{ p *T }

func (x *Pointer[T]) Load() *T { mc.Point("atomic.Pointer.Load"); return x.p }

func (x *Pointer[T]) Store(v *T) { mc.Point("atomic.Pointer.Store"); x.p = v; mc.After("atomic") }

func (x *Pointer[T]) Swap(v *T) *T {
	mc.Point("atomic.Pointer.Swap")
	old := x.p
	x.p = v
	mc.After("atomic")
	return old
}

func (x *Pointer[T]) CompareAndSwap(old, new *T) bool {
	mc.Point("atomic.Pointer.CompareAndSwap")
	if x.p == old {
		x.p = new
		mc.After("atomic")
		return true
	}
	return false
}

type Int32 struct{ v int32 }

func (x *Int32) Load() int32   { mc.Point("atomic.Int32.Load"); return x.v }
func (x *Int32) Store(v int32) { mc.Point("atomic.Int32.Store"); x.v = v; mc.After("atomic") }
func (x *Int32) Add(d int32) int32 {
	mc.Point("atomic.Int32.Add")
	x.v += d
	r := x.v
	mc.After("atomic")
	return r
}

type Int64 struct{ v int64 }

func (x *Int64) Load() int64   { mc.Point("atomic.Int64.Load"); return x.v }
func (x *Int64) Store(v int64) { mc.Point("atomic.Int64.Store"); x.v = v; mc.After("atomic") }
func (x *Int64) Add(d int64) int64 {
	mc.Point("atomic.Int64.Add")
	x.v += d
	r := x.v
	mc.After("atomic")
	return r
}

type Bool struct{ v bool }

func (x *Bool) Load() bool   { mc.Point("atomic.Bool.Load"); return x.v }
func (x *Bool) Store(v bool) { mc.Point("atomic.Bool.Store"); x.v = v; mc.After("atomic") }

func AddUint64(addr *uint64, delta uint64) uint64 {
	mc.Point("atomic.AddUint64")
	*addr += delta
	v := *addr
	mc.After("atomic")
	return v
}

func LoadUint64(addr *uint64) uint64 { mc.Point("atomic.LoadUint64"); return *addr }
func StoreUint64(addr *uint64, v uint64) {
	mc.Point("atomic.StoreUint64")
	*addr = v
	mc.After("atomic")
}

func CompareAndSwapInt64(addr *int64, old, new int64) bool {
	mc.Point("atomic.CompareAndSwapInt64")
	if *addr == old {
		*addr = new
		mc.After("atomic")
		return true
	}
	return false
}

func CompareAndSwapUint64(addr *uint64, old, new uint64) bool {
	mc.Point("atomic.CompareAndSwapUint64")
	if *addr == old {
		*addr = new
		mc.After("atomic")
		return true
	}
	return false
}

func SwapInt32(addr *int32, v int32) int32 {
	mc.Point("atomic.SwapInt32")
	old := *addr
	*addr = v
	mc.After("atomic")
	return old
}

func SwapUint32(addr *uint32, v uint32) uint32 {
	mc.Point("atomic.SwapUint32")
	old := *addr
	*addr = v
	mc.After("atomic")
	return old
}

func SwapInt64(addr *int64, v int64) int64 {
	mc.Point("atomic.SwapInt64")
	old := *addr
	*addr = v
	mc.After("atomic")
	return old
}

type Uint32 struct{ v uint32 }

func (x *Uint32) Load() uint32   { mc.Point("atomic.Uint32.Load"); return x.v }
func (x *Uint32) Store(v uint32) { mc.Point("atomic.Uint32.Store"); x.v = v; mc.After("atomic") }
func (x *Uint32) Add(d uint32) uint32 {
	mc.Point("atomic.Uint32.Add")
	x.v += d
	v := x.v
	mc.After("atomic")
	return v
}
func (x *Uint32) CompareAndSwap(old, new uint32) bool {
	mc.Point("atomic.Uint32.CompareAndSwap")
	if x.v == old {
		x.v = new
		mc.After("atomic")
		return true
	}
	return false
}

type Uint64 struct{ v uint64 }

func (x *Uint64) Load() uint64   { mc.Point("atomic.Uint64.Load"); return x.v }
func (x *Uint64) Store(v uint64) { mc.Point("atomic.Uint64.Store"); x.v = v; mc.After("atomic") }
func (x *Uint64) Add(d uint64) uint64 {
	mc.Point("atomic.Uint64.Add")
	x.v += d
	v := x.v
	mc.After("atomic")
	return v
}

func (x *Int32) CompareAndSwap(old, new int32) bool {
	mc.Point("atomic.Int32.CompareAndSwap")
	if x.v == old {
		x.v = new
		mc.After("atomic")
		return true
	}
	return false
}

func (x *Int64) CompareAndSwap(old, new int64) bool {
	mc.Point("atomic.Int64.CompareAndSwap")
	if x.v == old {
		x.v = new
		mc.After("atomic")
		return true
	}
	return false
}

func (x *Bool) CompareAndSwap(old, new bool) bool {
	mc.Point("atomic.Bool.CompareAndSwap")
	if x.v == old {
		x.v = new
		mc.After("atomic")
		return true
	}
	return false
}

func (x *Bool) Swap(new bool) bool {
	mc.Point("atomic.Bool.Swap")
	old := x.v
	x.v = new
	mc.After("atomic")
	return old
}

// Value is the model of atomic.Value, including its panics (nil, inconsistent type).
type Value struct {
	v   any
	set bool
}

func (x *Value) Load() any { mc.Point("atomic.Value.Load"); return x.v }

func (x *Value) check(v any) {
	if v == nil {
		panic("sync/atomic: store of nil value into Value")
	}
	if x.set && fmtType(x.v) != fmtType(v) {
		panic("sync/atomic: store of inconsistently typed value into Value")
	}
}

func (x *Value) Store(v any) {
	mc.Point("atomic.Value.Store")
	x.check(v)
	x.v, x.set = v, true
	mc.After("atomic")
}

func (x *Value) Swap(v any) any {
	mc.Point("atomic.Value.Swap")
	x.check(v)
	old := x.v
	x.v, x.set = v, true
	mc.After("atomic")
	return old
}

func (x *Value) CompareAndSwap(old, new any) bool {
	mc.Point("atomic.Value.CompareAndSwap")
	x.check(new)
	if x.v != old {
		return false
	}
	x.v, x.set = new, true
	mc.After("atomic")
	return true
}
