// Package rand is the model of the subset of math/rand that the transformed code uses: every call
// is an explorer-controlled choice from a small representative set.
package rand

import "verif/mc"

// Float64 returns one of {0, 0.5, just below 1}.
func Float64() float64 {
	switch mc.Choose("rand.Float64", 3) {
	case 0:
		return 0.5
	case 1:
		return 0
	}
	return 0.999999
}

// Int63n returns one of {n/2, 0, n-1}.
func Int63n(n int64) int64 {
	if n <= 0 {
		panic("invalid argument to Int63n")
	}
	if n == 1 {
		return 0
	}
	switch mc.Choose("rand.Int63n", 3) {
	case 0:
		return n / 2
	case 1:
		return 0
	}
	return n - 1
}

func Intn(n int) int { return int(Int63n(int64(n))) }
