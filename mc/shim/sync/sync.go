// Package sync is the model of the subset of package sync that the transformed code uses. Every
// operation is a scheduling point of the mc runtime.
package sync

import (
	"fmt"
	realsync "sync"

	"verif/mc"
)

type Locker interface {
	Lock()
	Unlock()
}

// Map and Pool are not synchronisation points the explorer needs to see; the real ones are fine in
// a one-thread-at-a-time world.
type Map = realsync.Map

// Pool is a deterministic model of sync.Pool: a LIFO free list that never drops anything (the real
// pool may drop items at any time, which only makes reuse rarer).
type Pool struct {
	New        func() any
	items      []any
	registered bool
}

// a pool that outlives an execution (a package-level variable) starts every execution empty
func (p *Pool) register() {
	if !p.registered {
		p.registered = true
		mc.RegisterReset(func() { p.items = nil })
	}
}

func (p *Pool) Get() any {
	p.register()
	mc.Point("Pool.Get")
	if n := len(p.items); n > 0 {
		x := p.items[n-1]
		p.items = p.items[:n-1]
		return x
	}
	if p.New != nil {
		return p.New()
	}
	return nil
}

func (p *Pool) Put(x any) {
	p.register()
	mc.Point("Pool.Put")
	p.items = append(p.items, x)
}

type Mutex struct {
	locked bool
	owner  int
}

func (m *Mutex) Lock() {
	mc.WaitUntil("Mutex.Lock", func() bool { return !m.locked })
	m.locked = true
	m.owner = mc.ThreadID()
}

func (m *Mutex) TryLock() bool {
	mc.Point("Mutex.TryLock")
	if m.locked {
		return false
	}
	m.locked = true
	m.owner = mc.ThreadID()
	return true
}

func (m *Mutex) Unlock() {
	mc.Point("Mutex.Unlock")
	if !m.locked {
		panic("sync: unlock of unlocked mutex")
	}
	m.locked = false
	mc.After("Unlock")
}

// Held is for oracles.
func (m *Mutex) Held() bool { return m.locked }

type RWMutex struct {
	readers int
	writer  bool
}

func (m *RWMutex) Lock() {
	mc.WaitUntil("RWMutex.Lock", func() bool { return !m.writer && m.readers == 0 })
	m.writer = true
}

func (m *RWMutex) Unlock() {
	mc.Point("RWMutex.Unlock")
	if !m.writer {
		panic("sync: Unlock of unlocked RWMutex")
	}
	m.writer = false
	mc.After("Unlock")
}

func (m *RWMutex) RLock() {
	mc.WaitUntil("RWMutex.RLock", func() bool { return !m.writer })
	m.readers++
}

func (m *RWMutex) RUnlock() {
	mc.Point("RWMutex.RUnlock")
	if m.readers <= 0 {
		panic("sync: RUnlock of unlocked RWMutex")
	}
	m.readers--
	mc.After("RUnlock")
}

type WaitGroup struct {
	n       int
	waiting int
}

func (wg *WaitGroup) Add(delta int) {
	mc.Point(fmt.Sprintf("WaitGroup.Add(%d)", delta))
	if delta > 0 && wg.n == 0 && wg.waiting > 0 {
		mc.NoteMisuse("WaitGroup.Add called from zero while a Wait is in progress")
	}
	wg.n += delta
	if wg.n < 0 {
		panic("sync: negative WaitGroup counter")
	}
	if delta < 0 {
		mc.After("WaitGroup.Done")
	}
}

func (wg *WaitGroup) Done() { wg.Add(-1) }

func (wg *WaitGroup) Wait() {
	wg.waiting++
	mc.WaitUntil("WaitGroup.Wait", func() bool { return wg.n == 0 })
	wg.waiting--
}

type Once struct {
	m    Mutex
	done bool
}

func (o *Once) Do(f func()) {
	o.m.Lock()
	defer o.m.Unlock()
	if !o.done {
		defer func() { o.done = true }()
		f()
	}
}

func OnceValue[T any](f func() T) func() T {
	var once Once
	var valid bool
	var p any
	var result T
	g := func() {
		defer func() {
			p = recover()
			if !valid {
				panic(p)
			}
		}()
		result = f()
		f = nil
		valid = true
	}
	return func() T {
		once.Do(g)
		if !valid {
			panic(p)
		}
		return result
	}
}

func OnceFunc(f func()) func() {
	var once Once
	return func() { once.Do(f) }
}

type Cond struct {
	L       Locker
	waiters []*condWaiter
}

type condWaiter struct{ woken bool }

func NewCond(l Locker) *Cond { return &Cond{L: l} }

func (c *Cond) Wait() {
	w := &condWaiter{}
	// unlock and enqueue atomically (one step), as sync.Cond guarantees
	mc.Point("Cond.Wait(enqueue+unlock)")
	c.waiters = append(c.waiters, w)
	unlockNoPoint(c.L)
	mc.WaitUntil("Cond.Wait(parked)", func() bool { return w.woken })
	c.L.Lock()
}

func unlockNoPoint(l Locker) {
	switch m := l.(type) {
	case *Mutex:
		if !m.locked {
			panic("sync: unlock of unlocked mutex")
		}
		m.locked = false
	default:
		l.Unlock()
	}
}

func (c *Cond) Signal() {
	mc.Point("Cond.Signal")
	if len(c.waiters) > 0 {
		c.waiters[0].woken = true
		c.waiters = c.waiters[1:]
	}
}

func (c *Cond) Broadcast() {
	mc.Point("Cond.Broadcast")
	for _, w := range c.waiters {
		w.woken = true
	}
	c.waiters = nil
}
