// Package time is the model of the subset of package time that the transformed code uses, on the mc
// runtime's virtual clock. Duration and Time are the real types.
package time

import (
	realtime "time"

	"verif/mc"
)

type Duration = realtime.Duration
type Time = realtime.Time
type Month = realtime.Month

const (
	Nanosecond  = realtime.Nanosecond
	Microsecond = realtime.Microsecond
	Millisecond = realtime.Millisecond
	Second      = realtime.Second
	Minute      = realtime.Minute
	Hour        = realtime.Hour
)

var epoch = realtime.Date(2020, 1, 1, 0, 0, 0, 0, realtime.UTC)

func Now() Time                 { return epoch.Add(Duration(mc.Now())) }
func Since(t Time) Duration     { return Now().Sub(t) }
func Until(t Time) Duration     { return t.Sub(Now()) }
func Unix(sec, nsec int64) Time { return realtime.Unix(sec, nsec) }

func Sleep(d Duration) { mc.Sleep(int64(d)) }

// Timer is the model of time.Timer.
type Timer struct {
	C  *mc.Chan[Time]
	vt *mc.VTimer
	f  func()
}

func (t *Timer) arm(d Duration) {
	if t.f != nil {
		f := t.f
		t.vt = mc.AddTimer(int64(d), "AfterFunc", func() { mc.SpawnFromClock("timerfunc", f) })
		return
	}
	c := t.C
	t.vt = mc.AddTimer(int64(d), "Timer", func() { c.TrySendNow(Now()) })
}

func NewTimer(d Duration) *Timer {
	mc.Point("time.NewTimer")
	t := &Timer{C: mc.MakeChan[Time](1)}
	t.arm(d)
	return t
}

func AfterFunc(d Duration, f func()) *Timer {
	mc.Point("time.AfterFunc")
	t := &Timer{f: f}
	t.arm(d)
	return t
}

func After(d Duration) *mc.Chan[Time] { return NewTimer(d).C }

// Stop prevents the Timer from firing; it reports whether the call stopped the timer.
func (t *Timer) Stop() bool {
	mc.Point("Timer.Stop")
	was := t.vt.Stop()
	if t.f == nil && mc.TimerMode() == 1 {
		// Go 1.23: no stale value is received after Stop returns; an undelivered value counts as
		// "stopped before it fired".
		if t.C.Drain() {
			was = true
		}
	}
	return was
}

func (t *Timer) Reset(d Duration) bool {
	mc.Point("Timer.Reset")
	was := t.vt.Stop()
	if t.f == nil && mc.TimerMode() == 1 {
		if t.C.Drain() {
			was = true
		}
	}
	t.arm(d)
	return was
}

// Ticker is the model of time.Ticker: a value is offered on C every d; a tick that finds the
// one-slot channel full is dropped, as in the real runtime.
type Ticker struct {
	C       *mc.Chan[Time]
	d       Duration
	vt      *mc.VTimer
	stopped bool
}

func (t *Ticker) arm() {
	c := t.C
	t.vt = mc.AddTimer(int64(t.d), "Ticker", func() {
		c.TrySendNow(Now())
		if !t.stopped {
			t.arm()
		}
	})
}

func NewTicker(d Duration) *Ticker {
	if d <= 0 {
		panic("non-positive interval for NewTicker")
	}
	mc.Point("time.NewTicker")
	t := &Ticker{C: mc.MakeChan[Time](1), d: d}
	t.arm()
	return t
}

func (t *Ticker) Stop() {
	mc.Point("Ticker.Stop")
	t.stopped = true
	t.vt.Stop()
	if mc.TimerMode() == 1 {
		t.C.Drain()
	}
}

func (t *Ticker) Reset(d Duration) {
	if d <= 0 {
		panic("non-positive interval for Ticker.Reset")
	}
	mc.Point("Ticker.Reset")
	t.vt.Stop()
	if mc.TimerMode() == 1 {
		t.C.Drain()
	}
	t.d, t.stopped = d, false
	t.arm()
}

func Tick(d Duration) *mc.Chan[Time] {
	if d <= 0 {
		return nil
	}
	return NewTicker(d).C
}
