// Package context is the model of the subset of package context that the transformed code uses.
// Done returns a model channel; cancellation propagates to children synchronously inside cancel,
// deadlines are timers on the virtual clock.
package context

import (
	realctx "context"
	realtime "time"

	"verif/mc"
	mctime "verif/mc/shim/time"
)

var Canceled = realctx.Canceled
var DeadlineExceeded = realctx.DeadlineExceeded

type CancelFunc func()

type Context interface {
	Deadline() (deadline realtime.Time, ok bool)
	Done() *mc.Chan[struct{}]
	Err() error
	Value(key any) any
}

type background struct{}

func (background) Deadline() (realtime.Time, bool) { return realtime.Time{}, false }
func (background) Done() *mc.Chan[struct{}]        { return nil }
func (background) Err() error                      { return nil }
func (background) Value(any) any                   { return nil }

func Background() Context { return background{} }
func TODO() Context       { return background{} }

type cancelCtx struct {
	parent   Context
	done     *mc.Chan[struct{}]
	err      error
	children []*cancelCtx
	deadline realtime.Time
	hasDl    bool
	vt       *mc.VTimer
	key, val any
	cause    error
}

func (c *cancelCtx) Deadline() (realtime.Time, bool) {
	if c.hasDl {
		return c.deadline, true
	}
	return c.parent.Deadline()
}

func (c *cancelCtx) Done() *mc.Chan[struct{}] { return c.done }

// Err is a scheduling point: it is the racing read in code that polls the context.
func (c *cancelCtx) Err() error {
	mc.Point("ctx.Err")
	return c.err
}

func (c *cancelCtx) Value(key any) any { return c.parent.Value(key) }

// cancelNow runs without a scheduling point (also used from timer callbacks).
func (c *cancelCtx) cancelNow(err error) { c.cancelCause(err, nil) }

func (c *cancelCtx) cancelCause(err, cause error) {
	if c.err != nil {
		return
	}
	if cause == nil {
		cause = err
	}
	c.err, c.cause = err, cause
	c.done.CloseNow()
	if c.vt != nil {
		c.vt.Stop()
	}
	for _, ch := range c.children {
		ch.cancelCause(err, cause)
	}
	c.children = nil
}

func newCancelCtx(parent Context) *cancelCtx {
	c := &cancelCtx{parent: parent, done: mc.MakeChan[struct{}](0)}
	if p, ok := parent.(*cancelCtx); ok {
		if p.err != nil {
			c.cancelCause(p.err, p.cause)
		} else {
			p.children = append(p.children, c)
		}
	} else if pv, ok := parent.(*valueCtx); ok {
		_ = pv
		if pc := pv.cancelParent(); pc != nil {
			if pc.err != nil {
				c.cancelCause(pc.err, pc.cause)
			} else {
				pc.children = append(pc.children, c)
			}
		}
	} else if d := parent.Done(); d != nil {
		// a context type of the caller's own: like the real package, watch its Done channel from a
		// thread of its own and pass the end on
		if d.IsClosed() {
			c.cancelCause(parent.Err(), nil)
		} else {
			mc.GoNamed("context-propagation", func() {
				mc.WaitUntil("context-propagation", func() bool { return d.IsClosed() || c.err != nil })
				if c.err == nil {
					c.cancelCause(parent.Err(), nil)
				}
			})
		}
	}
	return c
}

func WithCancel(parent Context) (Context, CancelFunc) {
	mc.Point("context.WithCancel")
	c := newCancelCtx(parent)
	return c, func() {
		mc.Point("cancel()")
		c.cancelNow(Canceled)
		mc.After("cancel")
	}
}

func WithDeadline(parent Context, d realtime.Time) (Context, CancelFunc) {
	mc.Point("context.WithDeadline")
	c := newCancelCtx(parent)
	if cur, ok := parent.Deadline(); ok && cur.Before(d) {
		// parent's deadline is earlier: it governs
		return c, func() { mc.Point("cancel()"); c.cancelNow(Canceled); mc.After("cancel") }
	}
	c.deadline, c.hasDl = d, true
	dur := mctime.Until(d)
	if dur <= 0 {
		c.cancelNow(DeadlineExceeded)
	} else if c.err == nil {
		c.vt = mc.AddTimer(int64(dur), "ctx deadline", func() { c.cancelNow(DeadlineExceeded) })
	}
	return c, func() { mc.Point("cancel()"); c.cancelNow(Canceled); mc.After("cancel") }
}

func WithTimeout(parent Context, d realtime.Duration) (Context, CancelFunc) {
	return WithDeadline(parent, mctime.Now().Add(d))
}

type valueCtx struct {
	Context
	key, val any
}

func (v *valueCtx) Value(key any) any {
	if key == v.key {
		return v.val
	}
	return v.Context.Value(key)
}

func (v *valueCtx) cancelParent() *cancelCtx {
	switch p := v.Context.(type) {
	case *cancelCtx:
		return p
	case *valueCtx:
		return p.cancelParent()
	}
	return nil
}

func WithValue(parent Context, key, val any) Context { return &valueCtx{parent, key, val} }

type CancelCauseFunc func(cause error)

// WithCancelCause is WithCancel whose cancel function records a cause (see Cause).
func WithCancelCause(parent Context) (Context, CancelCauseFunc) {
	mc.Point("context.WithCancelCause")
	c := newCancelCtx(parent)
	return c, func(cause error) {
		mc.Point("cancel(cause)")
		c.cancelCause(Canceled, cause)
		mc.After("cancel")
	}
}

// Cause returns the cause recorded when c (or the ancestor that ended it) was cancelled, the
// context's error if no cause was given, and nil while c is live.
func Cause(c Context) error {
	mc.Point("context.Cause")
	for {
		switch x := c.(type) {
		case *cancelCtx:
			return x.cause
		case *valueCtx:
			c = x.Context
			continue
		}
		return c.Err()
	}
}

func WithDeadlineCause(parent Context, d realtime.Time, cause error) (Context, CancelFunc) {
	ctx, cancel := WithDeadline(parent, d)
	if c, ok := ctx.(*cancelCtx); ok && c.hasDl {
		if c.err == DeadlineExceeded {
			c.cause = cause
		} else if c.vt != nil {
			c.vt.Stop()
			c.vt = mc.AddTimer(int64(mctime.Until(d)), "ctx deadline", func() { c.cancelCause(DeadlineExceeded, cause) })
		}
	}
	return ctx, cancel
}

func WithTimeoutCause(parent Context, d realtime.Duration, cause error) (Context, CancelFunc) {
	return WithDeadlineCause(parent, mctime.Now().Add(d), cause)
}

type withoutCancel struct{ Context }

func (withoutCancel) Deadline() (realtime.Time, bool) { return realtime.Time{}, false }
func (withoutCancel) Done() *mc.Chan[struct{}]        { return nil }
func (withoutCancel) Err() error                      { return nil }

// WithoutCancel keeps parent's values and drops its cancellation.
func WithoutCancel(parent Context) Context { return withoutCancel{parent} }
