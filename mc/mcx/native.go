//go:build !mcbuild

package mcx

import (
	"fmt"
	"os"
	"strconv"
	"time"

	"verif/internal/vx"
	"verif/mc/hx"
)

// NativeScenario is a scenario body run free-running (real goroutines, real time).
type NativeScenario struct {
	Name string
	Body func()
}

// NativeMain is the entry point of the free-running `-race` side pass of an E2 check: every scenario
// body is executed RACE_ITERS times untransformed. Only the race detector's verdict counts (the
// process exits with status 66 on a report, see GORACE in the run scripts); the scenario oracles are
// written for the controlled scheduler (quiescence, virtual time) and are not evaluated here.
// This pass is sampling: a side condition for the atomic-step assumption of engine E2, not the
// deciding step of any property.
func NativeMain(prop string, scs []NativeScenario) {
	run := vx.Start(prop)
	n := 12
	if s := os.Getenv("RACE_ITERS"); s != "" {
		n, _ = strconv.Atoi(s)
	}
	iters, timeouts := 0, 0
	deadline := time.Now().Add(45 * time.Second)
	for _, s := range scs {
		for i := 0; i < n && time.Now().Before(deadline); i++ {
			hx.Reset()
			done := make(chan struct{})
			go func() {
				defer close(done)
				defer func() { _ = recover() }() // a panic is the controlled explorer's business, not this pass's
				s.Body()
			}()
			select {
			case <-done:
			case <-time.After(3 * time.Second):
				timeouts++ // oracles and blocking behaviour are the controlled explorer's business
				i = n
			}
			iters++
		}
	}
	run.AddCounts(int64(iters), int64(iters), int64(iters))
	run.Set("race_pass", map[string]any{"executions": iters, "abandoned_after_3s": timeouts, "race_detector": "enabled (-race); a report exits with status 66", "kind": "sampling, free-running; only data-race reports count"})
	run.Sample(fmt.Sprintf("free-running executions of %d scenario bodies", len(scs)))
	run.Finish()
}
