// Package mcx orchestrates explorations: scenario tables, iterative preemption bounding, sharding
// over worker processes (the mc runtime is process-global), replay of recorded schedules and the
// evidence for engine E2 checks.
package mcx

import (
	"encoding/json"
	"fmt"
	"os"
	"os/exec"
	"runtime"
	"sort"
	"strings"
	"sync"
	"time"

	"verif/internal/vx"
	"verif/mc"
)

// Scenario is one closed system to explore.
type Scenario struct {
	Name string
	Body func()
	Cfg  mc.Config
	// Preemption bounds for the quick and the thorough tier; -1 = unbounded.
	Bound, ThoroughBound int
	AllowDeadlock        bool
	AllowHorizon         bool
	// Only explored in the thorough tier.
	ThoroughOnly bool
	// Known-finding signature prefix to use for violations of this scenario family.
	Family string
	// Wall-clock cap per bound for this scenario (0 = only the run's budget). Hitting it is reported
	// as a cap; the last completed bound is what the evidence claims.
	MaxTime time.Duration
	// See mc.Options.SwitchBound.
	SwitchBound int
}

type workerReq struct {
	Scenario string `json:"scenario"`
	Bound    int    `json:"bound"`
	Shard    int    `json:"shard"`
	Shards   int    `json:"shards"`
	Deadline int64  `json:"deadline"`
}

func find(scs []Scenario, name string) *Scenario {
	for i := range scs {
		if scs[i].Name == name {
			return &scs[i]
		}
	}
	return nil
}

func options(sc *Scenario, bound int) mc.Options {
	return mc.Options{Bound: bound, SwitchBound: sc.SwitchBound, Cfg: sc.Cfg, AllowDeadlock: sc.AllowDeadlock, AllowHorizon: sc.AllowHorizon}
}

// Main is the entry point of an E2 check binary.
func Main(prop string, scs []Scenario, assumptions []string) {
	if w := os.Getenv("MC_WORKER"); w != "" {
		var req workerReq
		if err := json.Unmarshal([]byte(w), &req); err != nil {
			vx.Fatal("bad MC_WORKER: %v", err)
		}
		sc := find(scs, req.Scenario)
		if sc == nil {
			vx.Fatal("unknown scenario %q", req.Scenario)
		}
		opt := options(sc, req.Bound)
		wrun := vx.Start(prop)
		opt.Ignore = func(f *mc.Failure) bool { return wrun.Known(sigOf(sc, f)) }
		opt.Shard, opt.Shards = req.Shard, req.Shards
		opt.Deadline = time.Unix(req.Deadline, 0)
		rep := mc.Explore(sc.Body, opt)
		b, _ := json.Marshal(rep)
		fmt.Println("MCREPORT " + string(b))
		os.Exit(0)
	}
	run := vx.Start(prop)
	if run.Replay != "" {
		var rp struct {
			Scenario string `json:"scenario"`
			Choices  []int  `json:"choices"`
		}
		run.LoadReplay(&rp)
		sc := find(scs, rp.Scenario)
		if sc == nil {
			vx.Fatal("unknown scenario %q", rp.Scenario)
		}
		cfg := sc.Cfg
		cfg.Trace = true
		x := mc.RunOnce(sc.Body, rp.Choices, cfg)
		for _, l := range x.Log {
			fmt.Println(l)
		}
		fmt.Printf("outcome: %s\n", x.Outcome)
		f := x.Fail
		if f == nil && x.Deadlock != "" && !sc.AllowDeadlock {
			f = &mc.Failure{Sig: "deadlock", Detail: x.Deadlock}
		}
		if f == nil && x.Horizon && !sc.AllowHorizon {
			f = &mc.Failure{Sig: "horizon", Detail: "did not finish"}
		}
		if f != nil {
			run.Violate(vx.Violation{Signature: sigOf(sc, f), Detail: f.Detail, Replay: rp})
		}
		run.Finish()
	}
	var table []map[string]any
	for i := range scs {
		sc := &scs[i]
		if sc.ThoroughOnly && run.Quick() {
			continue
		}
		maxBound := sc.Bound
		if !run.Quick() {
			maxBound = sc.ThoroughBound
		}
		row := map[string]any{"scenario": sc.Name}
		var last mc.Report
		completed := "none"
		bounds := []int{}
		if maxBound < 0 {
			bounds = []int{0, 1, -1}
		} else {
			for b := 0; b <= maxBound; b++ {
				bounds = append(bounds, b)
			}
		}
		var found *mc.Found
		for _, b := range bounds {
			if run.Expired() {
				run.Capped(sc.Name + ": time budget reached before bound " + boundStr(b))
				break
			}
			dl := run.Deadline
			if sc.MaxTime > 0 && time.Now().Add(sc.MaxTime).Before(dl) {
				dl = time.Now().Add(sc.MaxTime)
			}
			rep := exploreSharded(run, sc, b, dl)
			for sig := range rep.Ignored {
				run.Known(sigOf(sc, &mc.Failure{Sig: sig}))
			}
			if len(rep.Ignored) > 0 {
				row["known_finding_executions"] = rep.Ignored
			}
			last = rep
			if rep.Found != nil {
				found = rep.Found
				break
			}
			if !rep.Complete {
				run.Capped(fmt.Sprintf("%s: bound %s not completed (%s)", sc.Name, boundStr(b), rep.Capped))
				break
			}
			completed = boundStr(b)
		}
		run.AddCounts(last.Execs, last.Steps, last.Execs)
		row["preemption_bound_completed"] = completed
		if sc.SwitchBound > 0 {
			row["free_switch_deviation_bound"] = sc.SwitchBound
		}
		row["executions"] = last.Execs
		row["steps"] = last.Steps
		row["max_choice_points"] = last.MaxPoints
		row["distinct_outcomes"] = len(last.Outcomes)
		row["horizon_hits"] = last.Horizons
		if len(last.Outcomes) <= 12 {
			var os []string
			for o, n := range last.Outcomes {
				os = append(os, fmt.Sprintf("%dx %s", n, o))
			}
			sort.Strings(os)
			row["outcomes"] = os
		}
		table = append(table, row)
		if last.SampleTrace != nil {
			run.Sample(map[string]any{"scenario": sc.Name, "schedule_choices": last.SampleTrace})
		}
		if found != nil {
			log := found.Log
			if len(log) > 120 {
				log = log[len(log)-120:]
			}
			run.Violate(vx.Violation{
				Signature: sigOf(sc, &found.Failure),
				Detail:    fmt.Sprintf("[%s, %d preemptions] %s\nschedule (last steps):\n%s", sc.Name, found.Preemptions, found.Detail, strings.Join(log, "\n")),
				Replay:    map[string]any{"scenario": sc.Name, "choices": found.Choices},
			})
		}
	}
	run.Set("scenarios", table)
	run.Set("rule", "every execution of each scenario (real code, transformed onto the mc runtime) within the preemption bound: all thread choices, all ready select arms, all rendez-vous partners, clock-versus-thread orders and random-source answers; states = executions, transitions = scheduling steps")
	for _, a := range assumptions {
		run.Assume(a)
	}
	run.Assume("code between two synchronisation operations is one atomic step (sound for data-race-free code; Go's memory model gives sequential consistency for such programs)")
	run.Assume("the mc runtime models channels, select, sync, atomic, context and timers as documented; it is pinned by its own unit tests (mc/mc_test.go)")
	run.Finish()
}

func boundStr(b int) string {
	if b < 0 {
		return "unbounded"
	}
	return fmt.Sprint(b)
}

func sigOf(sc *Scenario, f *mc.Failure) string {
	fam := sc.Family
	if fam == "" {
		fam = strings.SplitN(sc.Name, "/", 2)[0]
	}
	return fam + "/" + f.Sig
}

// exploreSharded first tries in-process with an execution cap; if the tree is larger it is split
// over worker processes.
func exploreSharded(run *vx.Run, sc *Scenario, bound int, deadline time.Time) mc.Report {
	opt := options(sc, bound)
	opt.Ignore = func(f *mc.Failure) bool { return run.Known(sigOf(sc, f)) }
	opt.MaxExecs = 3000
	opt.Deadline = deadline
	rep := mc.Explore(sc.Body, opt)
	if rep.Complete || rep.Found != nil {
		return rep
	}
	shards := runtime.GOMAXPROCS(0)
	reports := make([]mc.Report, shards)
	errs := make([]error, shards)
	var wg sync.WaitGroup
	for i := 0; i < shards; i++ {
		wg.Add(1)
		go func(i int) {
			defer wg.Done()
			req, _ := json.Marshal(workerReq{Scenario: sc.Name, Bound: bound, Shard: i, Shards: shards, Deadline: deadline.Unix()})
			cmd := exec.Command(os.Args[0])
			cmd.Env = append(os.Environ(), "MC_WORKER="+string(req), "GOMAXPROCS=2")
			cmd.Stderr = os.Stderr
			out, err := cmd.Output()
			if err != nil {
				errs[i] = fmt.Errorf("worker %d: %v", i, err)
				return
			}
			for _, l := range strings.Split(string(out), "\n") {
				if strings.HasPrefix(l, "MCREPORT ") {
					if err := json.Unmarshal([]byte(l[9:]), &reports[i]); err != nil {
						errs[i] = err
					}
					return
				}
			}
			errs[i] = fmt.Errorf("worker %d: no report", i)
		}(i)
	}
	wg.Wait()
	total := mc.Report{Outcomes: map[string]int64{}, Complete: true}
	for i, r := range reports {
		if errs[i] != nil {
			vx.Fatal("%v", errs[i])
		}
		total.Execs += r.Execs
		total.Steps += r.Steps
		total.Horizons += r.Horizons
		total.Deadlocks += r.Deadlocks
		if r.MaxPoints > total.MaxPoints {
			total.MaxPoints = r.MaxPoints
		}
		for o, n := range r.Outcomes {
			total.Outcomes[o] += n
		}
		for o, n := range r.Ignored {
			if total.Ignored == nil {
				total.Ignored = map[string]int64{}
			}
			total.Ignored[o] += n
		}
		if !r.Complete && r.Found == nil {
			total.Complete = false
			total.Capped = r.Capped
		}
		if r.Found != nil && (total.Found == nil || r.Found.Preemptions < total.Found.Preemptions || (r.Found.Preemptions == total.Found.Preemptions && len(r.Found.Choices) < len(total.Found.Choices))) {
			total.Found = r.Found
		}
		if total.SampleTrace == nil {
			total.SampleTrace = r.SampleTrace
		}
	}
	if total.Found != nil {
		total.Complete = false
	}
	return total
}
