package mc

import (
	"fmt"
	"reflect"
)

// chanCore is the untyped part of a channel.
type chanCore struct {
	id     int
	cap    int
	buf    []any
	closed bool
	name   string
	// statistics for oracles
	sends int
}

// Chan is the model of a Go channel. A nil *Chan is the nil channel.
type Chan[T any] struct {
	c chanCore
}

// MakeChan is make(chan T, n).
func MakeChan[T any](n int) *Chan[T] {
	if s == nil {
		panic("mc.MakeChan outside the controlled scheduler")
	}
	if n < 0 {
		panic("makechan: size out of range")
	}
	s.nextObj++
	return &Chan[T]{c: chanCore{id: s.nextObj, cap: n}}
}

func (c *Chan[T]) core() *chanCore {
	if c == nil {
		return nil
	}
	return &c.c
}

// selCase is one arm of a (possibly single-armed) select.
type selCase struct {
	ch   *chanCore
	send bool
	val  any
}

// pendingSel is what a thread parked in a channel operation publishes so that partners can
// rendez-vous with it.
type pendingSel struct {
	t          *thread
	cases      []selCase
	hasDefault bool
	// filled in when a partner completes the operation
	doneIdx int
	doneVal any
	doneOK  bool
}

type selAlt struct {
	idx     int // case index, -1 = default
	partner *pendingSel
	pidx    int
}

// alternatives enumerates what the select can do right now, in canonical order.
func (p *pendingSel) alternatives(hasDefault bool) []selAlt {
	var out []selAlt
	immediate := false
	for i, c := range p.cases {
		if c.ch == nil {
			continue
		}
		if c.send {
			if c.ch.closed {
				out = append(out, selAlt{idx: i})
				immediate = true
				continue
			}
			if len(c.ch.buf) < c.ch.cap {
				out = append(out, selAlt{idx: i})
				immediate = true
				continue
			}
			if c.ch.cap == 0 {
				for _, q := range sortedPendings() {
					if q.t == p.t || (q.hasDefault && hasDefault) {
						// two selects with default never park, so they cannot meet
						continue
					}
					for j, qc := range q.cases {
						if qc.ch == c.ch && !qc.send {
							out = append(out, selAlt{idx: i, partner: q, pidx: j})
						}
					}
				}
			}
		} else {
			if len(c.ch.buf) > 0 || c.ch.closed {
				out = append(out, selAlt{idx: i})
				immediate = true
				continue
			}
			if c.ch.cap == 0 {
				for _, q := range sortedPendings() {
					if q.t == p.t || (q.hasDefault && hasDefault) {
						continue
					}
					for j, qc := range q.cases {
						if qc.ch == c.ch && qc.send {
							out = append(out, selAlt{idx: i, partner: q, pidx: j})
						}
					}
				}
			}
		}
	}
	// default is taken when nothing is ready; a rendez-vous partner that is merely pending may not
	// have parked yet in a real execution, so default stays possible next to rendez-vous arms.
	if hasDefault && !immediate {
		out = append(out, selAlt{idx: -1})
	}
	return out
}

func sortedPendings() []*pendingSel {
	out := make([]*pendingSel, 0, len(s.pendings))
	for _, t := range s.threads {
		if p, ok := s.pendings[t]; ok && !t.done && !t.fixed {
			out = append(out, p)
		}
	}
	return out
}

// SelectResult is what Select returns.
type SelectResult struct {
	Index int // -1 = default
	val   any
	ok    bool
}

// Case is one arm of a select statement, built by RecvCase or SendCase. The operands are evaluated
// when the case value is built, which the transformed code does in source order.
type Case interface{ selCase() selCase }

type RecvC[T any] struct{ c *Chan[T] }

type SendC[T any] struct {
	c *Chan[T]
	v T
}

func RecvCase[T any](c *Chan[T]) RecvC[T] { return RecvC[T]{c} }

func SendCase[T any](c *Chan[T], v T) SendC[T] { return SendC[T]{c, v} }

func (r RecvC[T]) selCase() selCase { return selCase{ch: r.c.core()} }
func (x SendC[T]) selCase() selCase { return selCase{ch: x.c.core(), send: true, val: x.v} }

// Recv returns the value received by this arm.
func (r RecvC[T]) Recv(res SelectResult) T { return SelRecv(r.c, res) }

// Recv2 returns the value received by this arm and whether the channel was open.
func (r RecvC[T]) Recv2(res SelectResult) (T, bool) { return SelRecv2(r.c, res) }

// Select performs a select statement.
func Select(hasDefault bool, cases ...Case) SelectResult {
	cs := make([]selCase, len(cases))
	for i := range cases {
		cs[i] = cases[i].selCase()
	}
	return doSelect(hasDefault, cs, "select")
}

func doSelect(hasDefault bool, cs []selCase, what string) SelectResult {
	if s == nil {
		panic("mc: channel operation outside the controlled scheduler")
	}
	t := s.cur
	p := &pendingSel{t: t, cases: cs, hasDefault: hasDefault, doneIdx: -2}
	s.pendings[t] = p
	var chosen []selAlt
	altIdx := park(describe(what, cs, hasDefault), func() int {
		chosen = p.alternatives(hasDefault)
		return len(chosen)
	})
	delete(s.pendings, t)
	if p.doneIdx != -2 {
		// a partner completed this operation for us
		return SelectResult{Index: p.doneIdx, val: p.doneVal, ok: p.doneOK}
	}
	a := chosen[altIdx]
	if a.idx == -1 {
		return SelectResult{Index: -1}
	}
	c := cs[a.idx]
	if a.partner != nil {
		q := a.partner
		qc := q.cases[a.pidx]
		if c.send {
			q.doneIdx, q.doneVal, q.doneOK = a.pidx, c.val, true
			c.ch.sends++
			fix(q.t)
			return SelectResult{Index: a.idx}
		}
		q.doneIdx = a.pidx
		c.ch.sends++
		fix(q.t)
		return SelectResult{Index: a.idx, val: qc.val, ok: true}
	}
	if c.send {
		if c.ch.closed {
			panic("send on closed channel")
		}
		c.ch.buf = append(c.ch.buf, c.val)
		c.ch.sends++
		return SelectResult{Index: a.idx}
	}
	if len(c.ch.buf) > 0 {
		v := c.ch.buf[0]
		c.ch.buf = c.ch.buf[1:]
		return SelectResult{Index: a.idx, val: v, ok: true}
	}
	// closed and drained
	return SelectResult{Index: a.idx, val: nil, ok: false}
}

// fix marks a partner's pending operation as completed: the partner is runnable and its own
// alternative is no longer a choice.
func fix(t *thread) {
	t.fixed = true
	t.fixedAlt = 0
	delete(s.pendings, t)
}

func describe(what string, cs []selCase, hasDefault bool) string {
	out := what + "{"
	for i, c := range cs {
		if i > 0 {
			out += ","
		}
		if c.ch == nil {
			out += "nil"
			continue
		}
		if c.send {
			out += fmt.Sprintf("ch%d<-", c.ch.id)
		} else {
			out += fmt.Sprintf("<-ch%d", c.ch.id)
		}
	}
	if hasDefault {
		out += ",default"
	}
	return out + "}"
}

// SelRecv extracts the received value of a receive arm.
func SelRecv[T any](c *Chan[T], r SelectResult) T {
	v, _ := SelRecv2(c, r)
	return v
}

func SelRecv2[T any](c *Chan[T], r SelectResult) (T, bool) {
	var zero T
	if !r.ok || r.val == nil {
		if r.ok {
			// a stored nil interface value
			return zero, true
		}
		return zero, false
	}
	return r.val.(T), true
}

func (c *Chan[T]) Send(v T) {
	doSelect(false, []selCase{{ch: c.core(), send: true, val: v}}, "send")
}

func (c *Chan[T]) Recv() T {
	r := doSelect(false, []selCase{{ch: c.core()}}, "recv")
	return SelRecv(c, r)
}

func (c *Chan[T]) Recv2() (T, bool) {
	r := doSelect(false, []selCase{{ch: c.core()}}, "recv")
	return SelRecv2(c, r)
}

func (c *Chan[T]) Close() {
	if c == nil {
		panic("close of nil channel")
	}
	Point(fmt.Sprintf("close ch%d", c.c.id))
	if c.c.closed {
		panic("close of closed channel")
	}
	c.c.closed = true
	After("close")
}

func (c *Chan[T]) Len() int {
	if c == nil {
		return 0
	}
	return len(c.c.buf)
}

func (c *Chan[T]) Cap() int {
	if c == nil {
		return 0
	}
	return c.c.cap
}

// Sends is the number of values ever sent on the channel (for "no send after Stop" oracles).
func (c *Chan[T]) Sends() int { return c.c.sends }

// IsClosed is for oracles.
func (c *Chan[T]) IsClosed() bool { return c.c.closed }

// TrySendNow sends without a scheduling point if there is room; used by timers (runs in the clock's
// context, must not park).
func (c *Chan[T]) TrySendNow(v T) bool {
	if len(c.c.buf) < c.c.cap {
		c.c.buf = append(c.c.buf, v)
		c.c.sends++
		return true
	}
	return false
}

// Drain empties the buffer (Go 1.23 timer Stop/Reset).
func (c *Chan[T]) Drain() bool {
	had := len(c.c.buf) > 0
	c.c.buf = nil
	return had
}

type anyChan interface{ core() *chanCore }

// ReflectSelect is reflect.Select for receive cases over model channels.
func ReflectSelect(cases []reflect.SelectCase) (int, reflect.Value, bool) {
	cs := make([]selCase, len(cases))
	hasDefault := false
	for i, c := range cases {
		switch c.Dir {
		case reflect.SelectRecv:
			if !c.Chan.IsValid() || c.Chan.IsNil() {
				continue
			}
			cs[i] = selCase{ch: c.Chan.Interface().(anyChan).core()}
		case reflect.SelectDefault:
			hasDefault = true
		default:
			panic("mc.ReflectSelect: only receive cases are supported")
		}
	}
	r := doSelect(hasDefault, cs, "reflect.Select")
	if r.Index < 0 {
		for i, c := range cases {
			if c.Dir == reflect.SelectDefault {
				return i, reflect.Value{}, false
			}
		}
	}
	if !r.ok {
		return r.Index, reflect.Zero(cases[r.Index].Chan.Type()), false
	}
	return r.Index, reflect.ValueOf(r.val), true
}

// CloseNow closes without a scheduling point (context cancellation, timer callbacks).
func (c *Chan[T]) CloseNow() {
	if !c.c.closed {
		c.c.closed = true
	}
}
