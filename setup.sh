#!/bin/bash
# Builds the verification framework from files on disk only (offline) and pre-warms the build cache
# (every check rebuilds from /repo's current sources when it runs; this just makes that fast).
set -eu
cd "$(dirname "$0")"
export GOFLAGS=-mod=mod GOPROXY=off GOSUMDB=off GOTOOLCHAIN=local CARGO_NET_OFFLINE=true PIP_NO_INDEX=1
export GOCACHE="${GOCACHE:-$PWD/.build/gocache}"
mkdir -p .build bin evidence
go build ./internal/... ./mc/... ./cmd/...
( cd rewriter && go build -o ../bin/gomc-rewrite . )
for id in $(jq -r '.checks[].property_id' MANIFEST.json); do
  ./check "$id" --build || { echo "setup: build of $id failed" >&2; exit 1; }
done
echo setup ok
