#!/bin/bash
# Builds the verification framework from files on disk only (offline) and pre-warms the build cache.
set -eu
cd "$(dirname "$0")"
export GOFLAGS=-mod=mod GOPROXY=off GOSUMDB=off GOTOOLCHAIN=local CARGO_NET_OFFLINE=true PIP_NO_INDEX=1
export GOCACHE="${GOCACHE:-$PWD/.build/gocache}"
mkdir -p .build bin evidence
go build ./internal/...
for d in props/*/; do
  lc=$(basename "$d")
  if [ -f "$d/main.go" ]; then
    go build -tags verif -o "bin/$lc" "./props/$lc"
  fi
done
echo setup ok
