module verif

go 1.23

require github.com/bradenaw/juniper v0.0.0

require (
	golang.org/x/exp v0.0.0-20231006140011-7918f672742d // indirect
	golang.org/x/sync v0.0.0-20210220032951-036812b2e83c // indirect
)

replace github.com/bradenaw/juniper => /repo

replace golang.org/x/sync => /verif/.build/mc/xsync-placeholder
