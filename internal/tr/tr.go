//go:build verif

// Package tr drives the real tree.Map / tree.Set next to a sorted-map reference model. Shared by the
// C01, C02 and C03 checks.
package tr

import (
	"fmt"
	"math"
	"reflect"
	"sort"
	"strings"

	"github.com/bradenaw/juniper/container/tree"
	"github.com/bradenaw/juniper/iterator"

	"verif/internal/seqx"
	"verif/internal/vx"
)

// Config selects constructor, order and container flavour.
type Config struct {
	Set   bool   `json:"set"`
	Ctor  string `json:"ctor"`  // "less" or "cmp"
	Order string `json:"order"` // "nat", "rev", "coarse"
	U     int    `json:"u"`     // key universe 1..U
}

func (c Config) String() string {
	k := "Map"
	if c.Set {
		k = "Set"
	}
	return fmt.Sprintf("%s/%s/%s/U=%d", k, c.Ctor, c.Order, c.U)
}

// Class maps a key to its equivalence class under the order; Rank orders classes ascending in the
// comparator's sense.
func (c Config) Class(k int) int {
	if c.Order == "coarse" {
		return k / 2
	}
	return k
}

func (c Config) cmpKeys(a, b int) int {
	switch c.Order {
	case "rev":
		return b - a
	case "coarse":
		return a/2 - b/2
	}
	return a - b
}

// Node is the hook's snapshot flattened to ints.
type Node struct {
	ID       int
	N        int
	Keys     []int
	Vals     []int // nil for Set
	Children []*Node
	ParentOK bool
}

type Snap struct {
	Root         *Node
	Size         int
	BranchFactor int
	MaxKVs       int
	MinKVs       int
	Nodes        int
}

func convNode[V any](x *tree.VerifNode[int, V], val func(V) int, set bool) *Node {
	if x == nil {
		return nil
	}
	n := &Node{ID: x.ID, N: x.N, Keys: x.Keys, ParentOK: x.ParentOK}
	if !set {
		n.Vals = make([]int, len(x.Values))
		for i, v := range x.Values {
			n.Vals[i] = val(v)
		}
	}
	n.Children = make([]*Node, len(x.Children))
	for i, c := range x.Children {
		n.Children[i] = convNode(c, val, set)
	}
	return n
}

type Cursor = tree.VerifCursor[int]

// Iter is a live iterator of either flavour.
type Iter struct {
	Next   func() (k, v int, ok bool)
	Cursor func() Cursor
}

// Bound kinds.
const (
	Unb = iota
	Inc
	Exc
)

var KindNames = []string{"Unbounded", "Included", "Excluded"}

// T is the real container (two copies of the Map/Set value) plus the model.
type T struct {
	Cfg   Config
	m     [2]tree.Map[int, int]
	s     [2]tree.Set[int]
	Model map[int][2]int // class -> (key as first inserted, current value)
	// comparator instrumentation
	Calls  int
	Budget int
	nops   int
	nextV  int
	sorted [][3]int // cache of Sorted(), nil when stale
}

type spin struct{}

func New(cfg Config) *T {
	t := &T{Cfg: cfg, Model: map[int][2]int{}, Budget: 1 << 30, nextV: 1000}
	cmp := func(a, b int) int {
		t.Calls++
		if t.Calls > t.Budget {
			panic(spin{})
		}
		return cfg.cmpKeys(a, b)
	}
	less := func(a, b int) bool { return cmp(a, b) < 0 }
	if cfg.Set {
		if cfg.Ctor == "less" {
			t.s[0] = tree.NewSet(less)
		} else {
			t.s[0] = tree.NewSetCmp(cmp)
		}
		t.s[1] = t.s[0] // a copy of the Set value denotes the same collection
	} else {
		if cfg.Ctor == "less" {
			t.m[0] = tree.NewMap[int, int](less)
		} else {
			t.m[0] = tree.NewMapCmp[int, int](cmp)
		}
		t.m[1] = t.m[0]
	}
	return t
}

// which copy of the value the next call goes through
func (t *T) side() int { t.nops++; return t.nops % 2 }

func (t *T) Put(k int) {
	i := t.side()
	t.nextV++
	if t.Cfg.Set {
		t.s[i].Add(k)
	} else {
		t.m[i].Put(k, t.nextV)
	}
	t.sorted = nil
	c := t.Cfg.Class(k)
	if old, ok := t.Model[c]; ok {
		t.Model[c] = [2]int{old[0], t.nextV}
	} else {
		t.Model[c] = [2]int{k, t.nextV}
	}
}

func (t *T) Delete(k int) {
	i := t.side()
	if t.Cfg.Set {
		t.s[i].Remove(k)
	} else {
		t.m[i].Delete(k)
	}
	delete(t.Model, t.Cfg.Class(k))
	t.sorted = nil
}

func (t *T) Len() int {
	i := t.side()
	if t.Cfg.Set {
		return t.s[i].Len()
	}
	return t.m[i].Len()
}

func (t *T) Contains(k int) bool {
	i := t.side()
	if t.Cfg.Set {
		return t.s[i].Contains(k)
	}
	return t.m[i].Contains(k)
}

// Get returns the value (Map only).
func (t *T) Get(k int) int { return t.m[t.side()].Get(k) }

func (t *T) First() (int, int) {
	i := t.side()
	if t.Cfg.Set {
		return t.s[i].First(), 0
	}
	return t.m[i].First()
}

func (t *T) Last() (int, int) {
	i := t.side()
	if t.Cfg.Set {
		return t.s[i].Last(), 0
	}
	return t.m[i].Last()
}

func bound(kind, k int) tree.Bound[int] {
	switch kind {
	case Inc:
		return tree.Included(k)
	case Exc:
		return tree.Excluded(k)
	}
	return tree.Unbounded[int]()
}

// IterSpec describes an iterator.
type IterSpec struct {
	Iterate bool `json:"iterate"` // plain Iterate() (forward, unbounded)
	Reverse bool `json:"reverse"`
	LoKind  int  `json:"lo_kind"`
	Lo      int  `json:"lo"`
	HiKind  int  `json:"hi_kind"`
	Hi      int  `json:"hi"`
}

func (s IterSpec) String() string {
	if s.Iterate {
		return "Iterate()"
	}
	f := "Range"
	if s.Reverse {
		f = "RangeReverse"
	}
	b := func(kind, k int) string {
		if kind == Unb {
			return "Unbounded"
		}
		return fmt.Sprintf("%s(%d)", KindNames[kind], k)
	}
	return fmt.Sprintf("%s(%s,%s)", f, b(s.LoKind, s.Lo), b(s.HiKind, s.Hi))
}

func (t *T) NewIter(sp IterSpec) Iter {
	i := t.side()
	lo, hi := bound(sp.LoKind, sp.Lo), bound(sp.HiKind, sp.Hi)
	if t.Cfg.Set {
		var it iterator.Iterator[int]
		switch {
		case sp.Iterate:
			it = t.s[i].Iterate()
		case sp.Reverse:
			it = t.s[i].RangeReverse(lo, hi)
		default:
			it = t.s[i].Range(lo, hi)
		}
		return Iter{
			Next:   func() (int, int, bool) { k, ok := it.Next(); return k, 0, ok },
			Cursor: func() Cursor { return tree.VerifCursorSet(t.s[0], it) },
		}
	}
	var it iterator.Iterator[tree.KVPair[int, int]]
	switch {
	case sp.Iterate:
		it = t.m[i].Iterate()
	case sp.Reverse:
		it = t.m[i].RangeReverse(lo, hi)
	default:
		it = t.m[i].Range(lo, hi)
	}
	return Iter{
		Next:   func() (int, int, bool) { p, ok := it.Next(); return p.Key, p.Value, ok },
		Cursor: func() Cursor { return tree.VerifCursorMap(t.m[0], it) },
	}
}

func (t *T) Snapshot() Snap {
	if t.Cfg.Set {
		s := tree.VerifSnapshotSet(t.s[0])
		return Snap{Root: convNode(s.Root, func(struct{}) int { return 0 }, true), Size: s.Size, BranchFactor: s.BranchFactor, MaxKVs: s.MaxKVs, MinKVs: s.MinKVs, Nodes: s.Nodes}
	}
	s := tree.VerifSnapshotMap(t.m[0])
	return Snap{Root: convNode(s.Root, func(v int) int { return v }, false), Size: s.Size, BranchFactor: s.BranchFactor, MaxKVs: s.MaxKVs, MinKVs: s.MinKVs, Nodes: s.Nodes}
}

// Sorted returns the model's entries in ascending comparator order: (class, key, value).
func (t *T) Sorted() [][3]int {
	if t.sorted != nil {
		return t.sorted
	}
	out := make([][3]int, 0, len(t.Model))
	for c, e := range t.Model {
		out = append(out, [3]int{c, e[0], e[1]})
	}
	sort.Slice(out, func(i, j int) bool { return t.Cfg.cmpKeys(out[i][1], out[j][1]) < 0 })
	t.sorted = out
	return out
}

// Key is the canonical state key: the complete structure dump with values relabelled by first
// occurrence (values are opaque to the tree).
func (t *T) Key() string {
	s := t.Snapshot()
	var sb strings.Builder
	relabel := map[int]int{0: 0}
	var walk func(n *Node)
	walk = func(n *Node) {
		if n == nil {
			sb.WriteByte('-')
			return
		}
		fmt.Fprintf(&sb, "(%d", n.N)
		if !n.ParentOK {
			sb.WriteByte('!')
		}
		// Live keys enter the state key by equivalence class: the tree touches keys only through
		// the comparator, so two states that differ in which representative of a class is stored
		// have the same futures (the oracle's model is rebuilt along each path, so it knows which
		// representative that path stored). Vacated slots are dumped
		// raw, so retained garbage still makes a different state.
		for i, k := range n.Keys {
			if i < n.N {
				fmt.Fprintf(&sb, " c%d", t.Cfg.Class(k))
			} else {
				fmt.Fprintf(&sb, " %d", k)
			}
		}
		sb.WriteByte('|')
		for _, v := range n.Vals {
			l, ok := relabel[v]
			if !ok {
				l = len(relabel)
				relabel[v] = l
			}
			fmt.Fprintf(&sb, " %d", l)
		}
		for _, c := range n.Children {
			walk(c)
		}
		sb.WriteByte(')')
	}
	walk(s.Root)
	fmt.Fprintf(&sb, "#%d", s.Size)
	return sb.String()
}

func viol(sig, format string, a ...any) *seqx.Viol {
	return &seqx.Viol{Sig: sig, Detail: fmt.Sprintf(format, a...)}
}

// Guard runs f, turning a comparator-budget overrun into "spins" and any other panic into "panic".
func (t *T) Guard(what string, f func()) *seqx.Viol {
	t.Calls = 0
	p := vx.Catch(f)
	if p == nil {
		return nil
	}
	if _, ok := p.(spin); ok {
		return viol("spin/"+what, "%s made more than %d comparisons: it spins", what, t.Budget)
	}
	return viol("panic/"+what, "%s panicked: %v", what, p)
}

// expectRange computes the model's answer to a range query.
func (t *T) expectRange(sp IterSpec) [][3]int {
	all := t.Sorted()
	var out [][3]int
	if !sp.Iterate && sp.LoKind != Unb {
		// binary search the lower end: most queries are short
		i := sort.Search(len(all), func(i int) bool {
			c := t.Cfg.cmpKeys(all[i][1], sp.Lo)
			return c > 0 || (c == 0 && sp.LoKind == Inc)
		})
		all = all[i:]
	}
	for _, e := range all {
		k := e[1]
		if !sp.Iterate {
			if sp.LoKind == Inc && t.Cfg.cmpKeys(k, sp.Lo) < 0 {
				continue
			}
			if sp.LoKind == Exc && t.Cfg.cmpKeys(k, sp.Lo) <= 0 {
				continue
			}
			if sp.HiKind == Inc && t.Cfg.cmpKeys(k, sp.Hi) > 0 {
				continue
			}
			if sp.HiKind != Unb && t.Cfg.cmpKeys(k, sp.Hi) > 0 {
				break // sorted: nothing further can qualify
			}
			if sp.HiKind == Exc && t.Cfg.cmpKeys(k, sp.Hi) >= 0 {
				continue
			}
		}
		out = append(out, e)
	}
	if sp.Reverse {
		for i, j := 0, len(out)-1; i < j; i, j = i+1, j-1 {
			out[i], out[j] = out[j], out[i]
		}
	}
	return out
}

// CheckRange runs one range query to the end (plus two more calls) and compares.
func (t *T) CheckRange(sp IterSpec) *seqx.Viol {
	want := t.expectRange(sp)
	var got [][2]int
	extra := 0
	if v := t.Guard(sp.String(), func() {
		it := t.NewIter(sp)
		for i := 0; i <= len(t.Model)+1; i++ {
			k, val, ok := it.Next()
			if !ok {
				break
			}
			got = append(got, [2]int{k, val})
		}
		for i := 0; i < 2; i++ {
			if _, _, ok := it.Next(); ok {
				extra++
			}
		}
	}); v != nil {
		return v
	}
	bad := len(got) != len(want) || extra > 0
	if !bad {
		for i := range got {
			if got[i][0] != want[i][1] || (!t.Cfg.Set && got[i][1] != want[i][2]) {
				bad = true
			}
		}
	}
	if bad {
		kind := "Range"
		if sp.Reverse {
			kind = "RangeReverse"
		}
		if sp.Iterate {
			kind = "Iterate"
		}
		return viol("c01/"+kind, "%s on %v yields (key,value) %v (+%d items after the end), model (class,key,value) %v", sp, t.Sorted(), got, extra, want)
	}
	return nil
}

// ObserveC01 is the full observation of C01 for the current state. bounds lists the bound positions
// to use for range queries.
func (t *T) ObserveC01(bounds []int, probes []int) *seqx.Viol {
	sorted := t.Sorted()
	var v *seqx.Viol
	if g := t.Guard("Len", func() {
		if n := t.Len(); n != len(t.Model) {
			v = viol("c01/Len", "Len()=%d, model has %d keys %v", n, len(t.Model), sorted)
		}
	}); g != nil {
		return g
	}
	if v != nil {
		return v
	}
	if g := t.Guard("First/Last", func() {
		fk, fv := t.First()
		lk, lv := t.Last()
		if len(sorted) == 0 {
			if fk != 0 || fv != 0 || lk != 0 || lv != 0 {
				v = viol("c01/FirstLast-empty", "First/Last on an empty collection return (%d,%d)/(%d,%d), want zero values", fk, fv, lk, lv)
			}
			return
		}
		f, l := sorted[0], sorted[len(sorted)-1]
		// the stored key is the one first put for its class ("overwriting the value for the key",
		// "adds item if it is not already present"), so keys are compared exactly, not by class
		if fk != f[1] || (!t.Cfg.Set && fv != f[2]) {
			v = viol("c01/First", "First()=(%d,%d), model %v", fk, fv, f)
		} else if lk != l[1] || (!t.Cfg.Set && lv != l[2]) {
			v = viol("c01/Last", "Last()=(%d,%d), model %v", lk, lv, l)
		}
	}); g != nil {
		return g
	}
	if v != nil {
		return v
	}
	for _, k := range probes {
		k := k
		if g := t.Guard("Get/Contains", func() {
			e, ok := t.Model[t.Cfg.Class(k)]
			if got := t.Contains(k); got != ok {
				v = viol("c01/Contains", "Contains(%d)=%v, model %v (%v)", k, got, ok, sorted)
			}
			if !t.Cfg.Set {
				want := 0
				if ok {
					want = e[1]
				}
				if got := t.Get(k); got != want {
					v = viol("c01/Get", "Get(%d)=%d, model %d (%v)", k, got, want, sorted)
				}
			}
		}); g != nil {
			return g
		}
		if v != nil {
			return v
		}
	}
	if v := t.CheckRange(IterSpec{Iterate: true}); v != nil {
		return v
	}
	for _, rev := range []bool{false, true} {
		for lk := Unb; lk <= Exc; lk++ {
			for hk := Unb; hk <= Exc; hk++ {
				los, his := bounds, bounds
				if lk == Unb {
					los = []int{0}
				}
				if hk == Unb {
					his = []int{0}
				}
				// Every lower position with the upper positions around it (below, equal, just above,
				// far above) and the extreme one; every upper position with the extreme lower one.
				// The seek for the near bound and the cut-off at the far bound are independent
				// mechanisms, so this covers each position of either with each relative placement of
				// the other (lower > upper, lower == upper, adjacent, distant).
				seen := map[[2]int]bool{}
				try := func(lo, hi int) *seqx.Viol {
					if seen[[2]int{lo, hi}] {
						return nil
					}
					seen[[2]int{lo, hi}] = true
					return t.CheckRange(IterSpec{Reverse: rev, LoKind: lk, Lo: lo, HiKind: hk, Hi: hi})
				}
				for i, lo := range los {
					for _, j := range []int{i - 1, i, i + 1, i + 3, len(his) - 1, 0} {
						if len(his) == 1 {
							j = 0
						}
						if j < 0 || j >= len(his) {
							continue
						}
						if v := try(lo, his[j]); v != nil {
							return v
						}
					}
				}
				for _, hi := range his {
					if v := try(los[0], hi); v != nil {
						return v
					}
					if v := try(los[len(los)/2], hi); v != nil {
						return v
					}
				}
			}
		}
	}
	return nil
}

// Shape statistics used for C03's coverage table.
type Shape struct {
	Depth  int
	Nodes  int
	Leaves int
}

// CheckC03 evaluates the structural invariant and the lookup-cost bound.
func (t *T) CheckC03(probes []int, literal bool) (*seqx.Viol, Shape) {
	s := t.Snapshot()
	var sh Shape
	sh.Nodes = s.Nodes
	if s.Root == nil {
		return viol("c03/nil-root", "root is nil"), sh
	}
	leafDepth := -1
	count := 0
	var prev *int
	var v *seqx.Viol
	fail := func(sig, format string, a ...any) {
		if v == nil {
			v = viol(sig, format, a...)
		}
	}
	var walk func(n *Node, depth int, isRoot bool)
	walk = func(n *Node, depth int, isRoot bool) {
		if v != nil {
			return
		}
		if n.ID < 0 {
			fail("c03/not-a-tree", "node structure is cyclic or shares a node")
			return
		}
		if !n.ParentOK {
			fail("c03/parent-link", "node #%d (keys %v) has a wrong parent link", n.ID, n.Keys[:clamp(n.N, len(n.Keys))])
		}
		if n.N < 0 || n.N > s.MaxKVs {
			fail("c03/overfull", "node #%d has n=%d > maxKVs=%d", n.ID, n.N, s.MaxKVs)
			return
		}
		if isRoot {
			if n.N == 0 && len(t.Model) > 0 {
				fail("c03/empty-root", "root has no keys but the tree holds %d", len(t.Model))
			}
		} else if n.N < s.MinKVs {
			fail("c03/underfull", "non-root node #%d has n=%d < minKVs=%d (keys %v)", n.ID, n.N, s.MinKVs, n.Keys[:n.N])
		}
		leaf := true
		for _, c := range n.Children {
			if c != nil {
				leaf = false
			}
		}
		// slots beyond n hold zero values
		for i := n.N; i < len(n.Keys); i++ {
			if n.Keys[i] != 0 {
				fail("c03/garbage-key", "node #%d keeps key %d in vacated slot %d (n=%d)", n.ID, n.Keys[i], i, n.N)
			}
			if n.Vals != nil && n.Vals[i] != 0 {
				fail("c03/garbage-value", "node #%d keeps value %d in vacated slot %d (n=%d)", n.ID, n.Vals[i], i, n.N)
			}
		}
		if leaf {
			sh.Leaves++
			if leafDepth == -1 {
				leafDepth = depth
			} else if leafDepth != depth {
				fail("c03/unbalanced", "leaves at depth %d and %d", leafDepth, depth)
			}
			for i := 0; i < n.N; i++ {
				visit(t, &prev, &count, n.Keys[i], fail)
			}
			return
		}
		for i, c := range n.Children {
			if i <= n.N && c == nil {
				fail("c03/missing-child", "internal node #%d (n=%d) has no child %d", n.ID, n.N, i)
				return
			}
			if i > n.N && c != nil {
				fail("c03/garbage-child", "node #%d keeps a child pointer in vacated slot %d (n=%d)", n.ID, i, n.N)
			}
		}
		for i := 0; i <= n.N; i++ {
			walk(n.Children[i], depth+1, false)
			if i < n.N {
				visit(t, &prev, &count, n.Keys[i], fail)
			}
		}
	}
	walk(s.Root, 1, true)
	if v != nil {
		return v, sh
	}
	sh.Depth = leafDepth
	// references kept outside the root's child links
	{
		liveNonzero := 0
		var cnt func(n *Node)
		cnt = func(n *Node) {
			if n == nil {
				return
			}
			for _, k := range n.Keys {
				if k != 0 {
					liveNonzero++
				}
			}
			for _, x := range n.Vals {
				if x != 0 {
					liveNonzero++
				}
			}
			for _, c := range n.Children {
				cnt(c)
			}
		}
		cnt(s.Root)
		if nodes, nonzero := t.reachableSlots(); nonzero != liveNonzero {
			return viol("c03/garbage-reachable", "%d node objects are reachable from the Map/Set value holding %d non-zero key/value slots, but the %d nodes under the root hold only %d: removed keys or values are still referenced from the live structure", nodes, nonzero, s.Nodes, liveNonzero), sh
		}
	}
	if count != len(t.Model) || s.Size != count {
		return viol("c03/size", "tree stores %d keys, size field %d, model %d", count, s.Size, len(t.Model)), sh
	}
	if got := t.Len(); got != count {
		return viol("c03/Len", "Len()=%d but %d keys are stored", got, count), sh
	}
	n := len(t.Model)
	if n > 0 {
		// depth <= 1 + floor(log_{minKVs+1}((n+1)/2))
		limit := 1 + int(math.Floor(math.Log(float64(n+1)/2)/math.Log(float64(s.MinKVs+1))+1e-9))
		if leafDepth > limit {
			return viol("c03/depth", "depth %d exceeds 1+floor(log_%d((n+1)/2))=%d for n=%d", leafDepth, s.MinKVs+1, limit, n), sh
		}
	}
	perLevel := s.MaxKVs
	if literal && s.BranchFactor == 16 {
		perLevel = 15
	}
	for _, k := range probes {
		k := k
		var viol2 *seqx.Viol
		if g := t.Guard("Get/Contains", func() {
			t.Calls = 0
			t.Contains(k)
			c1 := t.Calls
			t.Calls = 0
			if !t.Cfg.Set {
				t.Get(k)
			}
			c2 := t.Calls
			mult := 1
			if t.Cfg.Ctor == "less" {
				mult = 2 // one three-way comparison costs up to two less() calls
			}
			if c1 > perLevel*leafDepth*mult || c2 > perLevel*leafDepth*mult {
				viol2 = viol("c03/comparisons", "lookup of %d made %d/%d comparator calls, bound %d per level x depth %d", k, c1, c2, perLevel*mult, leafDepth)
			}
		}); g != nil {
			return g, sh
		}
		if viol2 != nil {
			return viol2, sh
		}
	}
	return nil, sh
}

// reachableSlots walks everything reachable from the Map/Set VALUE by reflection (every pointer,
// struct, array and slice field, exported or not - not only what the root's child links reach) and
// returns the number of distinct node objects (structs with a "keys" field) and of non-zero key and
// value slots in them. Together with the root walk this decides "no longer referenced from the live
// structure" for references the tree might keep outside its root (free lists, spare nodes, caches).
func (t *T) reachableSlots() (nodes, nonzero int) {
	var root reflect.Value
	if t.Cfg.Set {
		root = reflect.ValueOf(t.s[0])
	} else {
		root = reflect.ValueOf(t.m[0])
	}
	seen := map[uintptr]bool{}
	var walk func(v reflect.Value)
	walk = func(v reflect.Value) {
		switch v.Kind() {
		case reflect.Pointer:
			if v.IsNil() || seen[v.Pointer()] {
				return
			}
			seen[v.Pointer()] = true
			walk(v.Elem())
		case reflect.Interface:
			if !v.IsNil() {
				walk(v.Elem())
			}
		case reflect.Struct:
			if f := v.FieldByName("keys"); f.IsValid() {
				nodes++
				for _, name := range []string{"keys", "values"} {
					a := v.FieldByName(name)
					if !a.IsValid() || (a.Kind() != reflect.Array && a.Kind() != reflect.Slice) {
						continue
					}
					for i := 0; i < a.Len(); i++ {
						if e := a.Index(i); e.Kind() == reflect.Int && e.Int() != 0 {
							nonzero++
						}
					}
				}
			}
			for i := 0; i < v.NumField(); i++ {
				walk(v.Field(i))
			}
		case reflect.Array, reflect.Slice:
			if k := v.Type().Elem().Kind(); k == reflect.Pointer || k == reflect.Struct || k == reflect.Interface || k == reflect.Slice || k == reflect.Array {
				for i := 0; i < v.Len(); i++ {
					walk(v.Index(i))
				}
			}
		}
	}
	walk(root)
	return
}

func clamp(n, max int) int {
	if n < 0 {
		return 0
	}
	if n > max {
		return max
	}
	return n
}

func visit(t *T, prev **int, count *int, k int, fail func(string, string, ...any)) {
	*count++
	if *prev != nil && t.Cfg.cmpKeys(**prev, k) >= 0 {
		fail("c03/order", "in-order walk is not strictly increasing: %d then %d", **prev, k)
	}
	if _, ok := t.Model[t.Cfg.Class(k)]; !ok {
		fail("c03/stale-key", "key %d is stored but not in the model", k)
	}
	kk := k
	*prev = &kk
}

// rawDump flattens the structure: everything except values into a string, values into a slice.
func (t *T) rawDump() (string, []int) {
	var sb strings.Builder
	var vals []int
	var gen int
	if t.Cfg.Set {
		gen = tree.VerifSnapshotSet(t.s[0]).Gen
	} else {
		gen = tree.VerifSnapshotMap(t.m[0]).Gen
	}
	s := t.Snapshot()
	var walk func(n *Node)
	walk = func(n *Node) {
		if n == nil {
			sb.WriteByte('-')
			return
		}
		fmt.Fprintf(&sb, "(%d %v %v", n.N, n.ParentOK, n.Keys)
		vals = append(vals, n.Vals...)
		for _, c := range n.Children {
			walk(c)
		}
		sb.WriteByte(')')
	}
	walk(s.Root)
	fmt.Fprintf(&sb, "#%d gen=%d", s.Size, gen)
	return sb.String(), vals
}

// CheckFootprint evaluates the write-footprint invariant behind C01's concurrency clause: a Put of
// a present key changes nothing but that key's value slot (no generation, size, key, link or
// occupancy change), and reads and iterator construction change nothing at all.
func (t *T) CheckFootprint() *seqx.Viol {
	s0, v0 := t.rawDump()
	var out *seqx.Viol
	if g := t.Guard("reads", func() {
		t.Len()
		t.First()
		t.Last()
		for c, e := range t.Model {
			_ = c
			t.Contains(e[0])
			if !t.Cfg.Set {
				t.Get(e[0])
			}
		}
		t.NewIter(IterSpec{Iterate: true})
		t.NewIter(IterSpec{Reverse: true, LoKind: Inc, Lo: 1, HiKind: Exc, Hi: t.Cfg.U})
	}); g != nil {
		return g
	}
	s1, v1 := t.rawDump()
	if s0 != s1 || fmt.Sprint(v0) != fmt.Sprint(v1) {
		return viol("c01/footprint-read", "read-only calls changed the structure: %s -> %s", s0, s1)
	}
	for _, e := range t.Sorted() {
		k := e[1]
		// under a coarse order, put the class's other representative: the stored key must stay
		if alt := k ^ 1; t.Cfg.Class(alt) == t.Cfg.Class(k) && alt != k && alt >= 0 && alt <= t.Cfg.U {
			k = alt
		}
		before, vb := t.rawDump()
		if g := t.Guard("Put", func() { t.Put(k) }); g != nil {
			return g
		}
		after, va := t.rawDump()
		if before != after {
			return viol("c01/footprint-put", "Put of present key %d changed more than its value slot: %s -> %s", k, before, after)
		}
		if !t.Cfg.Set {
			diff := 0
			for i := range vb {
				if vb[i] != va[i] {
					diff++
					if va[i] != t.Model[t.Cfg.Class(k)][1] {
						out = viol("c01/footprint-put", "Put of present key %d wrote value slot %d with %d", k, i, va[i])
					}
				}
			}
			if diff != 1 && out == nil {
				out = viol("c01/footprint-put", "Put of present key %d changed %d value slots", k, diff)
			}
			if out != nil {
				return out
			}
		}
	}
	return nil
}
