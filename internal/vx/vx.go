// Package vx is the common plumbing of every check: tier/seed handling, evidence files, replay
// artefacts, known-findings matching and the VIOLATION / KNOWN-FINDING output protocol.
package vx

import (
	"crypto/sha256"
	"encoding/hex"
	"encoding/json"
	"flag"
	"fmt"
	"os"
	"path/filepath"
	"regexp"
	"runtime"
	"runtime/debug"
	"sort"
	"strconv"
	"strings"
	"sync"
	"time"
)

// Root is the directory holding MANIFEST.json. Checks are always started with cwd=/verif, but be
// robust against being started from somewhere else.
func Root() string {
	if r := os.Getenv("VERIF_ROOT"); r != "" {
		return r
	}
	if _, err := os.Stat("MANIFEST.json"); err == nil {
		wd, _ := os.Getwd()
		return wd
	}
	return "/verif"
}

// Violation is one failing case.
type Violation struct {
	// Stable identification of *what* fails (clause + scenario family + normalised counterexample
	// shape). Known findings are matched against it.
	Signature string `json:"signature"`
	// Human readable description of the disagreement.
	Detail string `json:"detail"`
	// Everything needed to re-run the case: configuration + operation list / schedule.
	Replay any `json:"replay"`
}

type finding struct {
	Property  string `json:"property"`
	Signature string `json:"signature"` // regular expression, anchored
	What      string `json:"what"`
	Status    string `json:"status"` // "open" or "fixed"
	Commit    string `json:"commit,omitempty"`
}

// Run collects what one invocation of a check covered.
type Run struct {
	Prop   string
	Tier   string
	Seed   int64
	Replay string // path given with --replay, or ""
	// Deadline after which explorations stop early and report exhaustive:false.
	Deadline time.Time

	start       time.Time
	mu          sync.Mutex
	cov         map[string]any
	samples     []any
	assumptions []string
	viols       []Violation
	known       map[string]finding // signature -> finding, those that were observed
	findings    []finding
	capped      []string
	states      int64
	transitions int64
	validated   int64
	maxSamples  int
}

// Start parses the command line of a check binary: `<bin> quick|thorough` or `<bin> --replay path`.
// current is the run of this process: a panic that escapes into a Parallel worker (the code under check
// panicked where the check did not expect it) is reported through it as a violation, not as a crash.
var current *Run

func Start(prop string) *Run {
	r := &Run{Prop: prop, Tier: "quick", start: time.Now(), cov: map[string]any{}, known: map[string]finding{}, maxSamples: 12}
	current = r
	fs := flag.NewFlagSet(prop, flag.ExitOnError)
	replay := fs.String("replay", "", "replay file")
	budget := fs.Duration("budget", 0, "wall-clock budget after which the run stops and reports exhaustive:false")
	args := os.Args[1:]
	if len(args) > 0 && (args[0] == "quick" || args[0] == "thorough") {
		r.Tier = args[0]
		args = args[1:]
	} else if t := os.Getenv("VERIF_TIER"); t == "quick" || t == "thorough" {
		r.Tier = t
	}
	_ = fs.Parse(args)
	r.Replay = *replay
	if s := os.Getenv("VERIF_SEED"); s != "" {
		if v, err := strconv.ParseInt(s, 10, 64); err == nil {
			r.Seed = v
		}
	}
	b := *budget
	if b == 0 {
		if r.Tier == "quick" {
			b = 8 * time.Minute
		} else {
			b = 100 * time.Minute
		}
		if s := os.Getenv("VERIF_BUDGET"); s != "" {
			if d, err := time.ParseDuration(s); err == nil {
				b = d
			}
		}
	}
	r.Deadline = r.start.Add(b)
	r.loadFindings()
	// Watchdog: explorations poll the deadline between cases; a single case that never returns (a
	// change to the repository that loops forever) would otherwise hang the check. Well past the
	// budget the run is abandoned as an infrastructure failure (exit 2), never as a verdict.
	go func() {
		time.Sleep(b + 4*time.Minute)
		fmt.Fprintf(os.Stderr, "INFRASTRUCTURE ERROR: watchdog: %s %s did not finish %v after its time budget; a case of the exploration does not terminate\n", prop, r.Tier, 4*time.Minute)
		os.Exit(2)
	}()
	return r
}

func (r *Run) Quick() bool { return r.Tier == "quick" }

// Expired reports whether the wall-clock budget is used up.
func (r *Run) Expired() bool { return time.Now().After(r.Deadline) }

func (r *Run) loadFindings() {
	b, err := os.ReadFile(filepath.Join(Root(), "known_findings.json"))
	if err != nil {
		return
	}
	var f struct {
		Findings []finding `json:"findings"`
	}
	if err := json.Unmarshal(b, &f); err != nil {
		fmt.Fprintf(os.Stderr, "known_findings.json: %v\n", err)
		os.Exit(2)
	}
	for _, x := range f.Findings {
		if x.Property == r.Prop {
			r.findings = append(r.findings, x)
		}
	}
}

// Set records a coverage key.
func (r *Run) Set(key string, v any) {
	r.mu.Lock()
	r.cov[key] = v
	r.mu.Unlock()
}

// AddCounts adds to the model-checking counters.
func (r *Run) AddCounts(states, transitions, validated int64) {
	r.mu.Lock()
	r.states += states
	r.transitions += transitions
	r.validated += validated
	r.mu.Unlock()
}

// Sample records an explored case verbatim (bounded number kept).
func (r *Run) Sample(s any) {
	r.mu.Lock()
	if len(r.samples) < r.maxSamples {
		r.samples = append(r.samples, s)
	}
	r.mu.Unlock()
}

func (r *Run) Assume(s string) {
	r.mu.Lock()
	r.assumptions = append(r.assumptions, s)
	r.mu.Unlock()
}

// Capped records that some cap (states, time, depth) was hit: the run is then not exhaustive.
func (r *Run) Capped(what string) {
	r.mu.Lock()
	r.capped = append(r.capped, what)
	r.mu.Unlock()
}

// NumViolations is the number of violations reported so far that are not known findings.
func (r *Run) NumViolations() int {
	r.mu.Lock()
	defer r.mu.Unlock()
	return len(r.viols)
}

// Known reports whether a violation with this signature is a recorded open finding (and notes that
// it was observed, so that its KNOWN-FINDING line is printed).
func (r *Run) Known(sig string) bool {
	r.mu.Lock()
	defer r.mu.Unlock()
	for _, f := range r.findings {
		if f.Status != "open" {
			continue
		}
		re, err := regexp.Compile("^(?:" + f.Signature + ")$")
		if err != nil {
			continue
		}
		if re.MatchString(sig) {
			r.known[f.Signature] = f
			return true
		}
	}
	return false
}

// Violate reports a violation. Known findings are recognised here.
func (r *Run) Violate(v Violation) {
	r.mu.Lock()
	defer r.mu.Unlock()
	for _, f := range r.findings {
		if f.Status != "open" {
			continue
		}
		re, err := regexp.Compile("^(?:" + f.Signature + ")$")
		if err != nil {
			fmt.Fprintf(os.Stderr, "bad known-finding signature %q: %v\n", f.Signature, err)
			os.Exit(2)
		}
		if re.MatchString(v.Signature) {
			r.known[f.Signature] = f
			return
		}
	}
	// keep one per signature, the first (searches go shortest-first)
	for _, o := range r.viols {
		if o.Signature == v.Signature {
			return
		}
	}
	if len(r.viols) < 50 {
		r.viols = append(r.viols, v)
	}
}

func (r *Run) writeReplay(v Violation) string {
	dir := filepath.Join(Root(), "evidence", "replays", r.Prop)
	_ = os.MkdirAll(dir, 0o755)
	b, _ := json.MarshalIndent(map[string]any{
		"property":  r.Prop,
		"signature": v.Signature,
		"detail":    v.Detail,
		"replay":    v.Replay,
	}, "", " ")
	h := sha256.Sum256(b)
	p := filepath.Join(dir, hex.EncodeToString(h[:6])+".json")
	_ = os.WriteFile(p, b, 0o644)
	return p
}

// LoadReplay reads the "replay" member of a replay file into out.
func (r *Run) LoadReplay(out any) {
	b, err := os.ReadFile(r.Replay)
	if err != nil {
		fmt.Fprintln(os.Stderr, err)
		os.Exit(2)
	}
	var f struct {
		Replay json.RawMessage `json:"replay"`
	}
	if err := json.Unmarshal(b, &f); err != nil {
		fmt.Fprintln(os.Stderr, err)
		os.Exit(2)
	}
	if err := json.Unmarshal(f.Replay, out); err != nil {
		fmt.Fprintln(os.Stderr, err)
		os.Exit(2)
	}
}

type part struct {
	Name        string         `json:"name"`
	Cov         map[string]any `json:"cov"`
	Samples     []any          `json:"samples"`
	Assumptions []string       `json:"assumptions"`
	Viols       []Violation    `json:"viols"`
	Known       []finding      `json:"known"`
	Capped      []string       `json:"capped"`
	States      int64          `json:"states"`
	Transitions int64          `json:"transitions"`
	Validated   int64          `json:"validated"`
	Wall        float64        `json:"wall"`
}

// finishPart writes this run's results to the file named by VERIF_PART instead of producing the
// evidence file; cmd/vxmerge combines the parts of one check (e.g. one per B-tree fan-out build).
func (r *Run) finishPart(path string) {
	p := part{Name: os.Getenv("VERIF_PART_NAME"), Cov: r.cov, Samples: r.samples, Assumptions: r.assumptions, Viols: r.viols, Capped: r.capped,
		States: r.states, Transitions: r.transitions, Validated: r.validated, Wall: time.Since(r.start).Seconds()}
	for _, f := range r.known {
		p.Known = append(p.Known, f)
	}
	b, _ := json.MarshalIndent(p, "", " ")
	if err := os.WriteFile(path, b, 0o644); err != nil {
		Fatal("%v", err)
	}
	fmt.Printf("%s part %s: states=%d transitions=%d violations=%d capped=%v wall=%.1fs\n", r.Prop, p.Name, r.states, r.transitions, len(r.viols), r.capped, p.Wall)
	os.Exit(0)
}

// Merge combines part files into the evidence of one check and finishes.
func Merge(prop, tier string, files []string) {
	r := Start(prop)
	r.Tier = tier
	var parts []any
	seenAssume := map[string]bool{}
	for _, f := range files {
		b, err := os.ReadFile(f)
		if err != nil {
			Fatal("part %s missing: %v", f, err)
		}
		var p part
		if err := json.Unmarshal(b, &p); err != nil {
			Fatal("part %s: %v", f, err)
		}
		r.states += p.States
		r.transitions += p.Transitions
		r.validated += p.Validated
		for _, c := range p.Capped {
			r.capped = append(r.capped, p.Name+": "+c)
		}
		for _, a := range p.Assumptions {
			if !seenAssume[a] {
				seenAssume[a] = true
				r.assumptions = append(r.assumptions, a)
			}
		}
		for i, s := range p.Samples {
			if i < 3 {
				r.samples = append(r.samples, map[string]any{"part": p.Name, "sample": s})
			}
		}
		for _, v := range p.Viols {
			v.Signature = p.Name + ":" + v.Signature
			r.viols = append(r.viols, v)
		}
		for _, k := range p.Known {
			r.known[k.Signature] = k
		}
		p.Cov["part"] = p.Name
		p.Cov["states"] = p.States
		p.Cov["transitions"] = p.Transitions
		p.Cov["wall_s"] = p.Wall
		if rule, ok := p.Cov["rule"]; ok {
			r.cov["rule"] = rule
			delete(p.Cov, "rule")
		}
		parts = append(parts, p.Cov)
	}
	r.cov["configurations"] = parts
	r.maxSamples = 1 << 20
	var wall float64
	for _, pc := range parts {
		if w, ok := pc.(map[string]any)["wall_s"].(float64); ok {
			wall += w
		}
	}
	r.start = time.Now().Add(-time.Duration(wall * float64(time.Second)))
	r.Finish()
}

// Finish writes the evidence file, prints the protocol lines and exits.
func (r *Run) Finish() {
	r.mu.Lock()
	defer r.mu.Unlock()
	if pf := os.Getenv("VERIF_PART"); pf != "" && r.Replay == "" {
		r.finishPart(pf)
	}
	exhaustive := len(r.capped) == 0
	if _, ok := r.cov["exhaustive"]; !ok {
		r.cov["exhaustive"] = exhaustive
	} else if !exhaustive {
		r.cov["exhaustive"] = false
	}
	if len(r.capped) > 0 {
		r.cov["caps_hit"] = r.capped
	}
	if r.states > 0 {
		r.cov["states"] = r.states
	}
	if r.transitions > 0 {
		r.cov["transitions"] = r.transitions
	}
	r.cov["traces_validated_against_impl"] = r.validated
	if len(r.samples) == 0 {
		r.samples = append(r.samples, "no sample recorded")
	}
	r.cov["samples"] = r.samples
	var knownLines []string
	for _, f := range r.known {
		knownLines = append(knownLines, fmt.Sprintf("KNOWN-FINDING: property=%s %s", r.Prop, f.What))
	}
	sort.Strings(knownLines)
	if len(knownLines) > 0 {
		r.cov["known_findings_observed"] = knownLines
	}
	ev := map[string]any{
		"property_id": r.Prop,
		"tier":        r.Tier,
		"seed":        r.Seed,
		"level":       "model_checking",
		"coverage":    r.cov,
		"assumptions": r.assumptions,
		"wall_s":      time.Since(r.start).Seconds(),
		"violations":  len(r.viols),
		"go":          runtime.Version(),
	}
	if r.assumptions == nil {
		ev["assumptions"] = []string{}
	}
	if r.Replay == "" {
		b, _ := json.MarshalIndent(ev, "", " ")
		dir := filepath.Join(Root(), "evidence")
		_ = os.MkdirAll(dir, 0o755)
		if err := os.WriteFile(filepath.Join(dir, r.Prop+".json"), b, 0o644); err != nil {
			fmt.Fprintln(os.Stderr, err)
			os.Exit(2)
		}
	}
	for _, l := range knownLines {
		fmt.Println(l)
	}
	fmt.Printf("%s %s: states=%d transitions=%d validated=%d exhaustive=%v wall=%.1fs violations=%d\n",
		r.Prop, r.Tier, r.states, r.transitions, r.validated, r.cov["exhaustive"], time.Since(r.start).Seconds(), len(r.viols))
	if len(r.viols) > 0 {
		for _, v := range r.viols {
			p := r.Replay
			if p == "" {
				p = r.writeReplay(v)
			}
			fmt.Printf("  violation: %s\n    %s\n", v.Signature, v.Detail)
			fmt.Printf("VIOLATION property=%s replay=%s\n", r.Prop, p)
		}
		os.Exit(1)
	}
	os.Exit(0)
}

// Fatal is for infrastructure failures (not verdicts): exit code 2.
func Fatal(format string, a ...any) {
	fmt.Fprintf(os.Stderr, "INFRASTRUCTURE ERROR: "+format+"\n", a...)
	os.Exit(2)
}

// Parallel runs fn(i) for i in [0,n) on all cores.
func Parallel(n int, fn func(i int)) {
	w := runtime.GOMAXPROCS(0)
	if w > n {
		w = n
	}
	if w <= 1 {
		for i := 0; i < n; i++ {
			guarded(fn, i)
		}
		return
	}
	var wg sync.WaitGroup
	var mu sync.Mutex
	next := 0
	for k := 0; k < w; k++ {
		wg.Add(1)
		go func() {
			defer wg.Done()
			for {
				mu.Lock()
				i := next
				next++
				mu.Unlock()
				if i >= n {
					return
				}
				guarded(fn, i)
			}
		}()
	}
	wg.Wait()
}

func guarded(fn func(i int), i int) {
	defer func() {
		if p := recover(); p != nil {
			if current == nil {
				panic(p)
			}
			st := string(debug.Stack())
			if lines := strings.Split(st, "\n"); len(lines) > 24 {
				st = strings.Join(lines[:24], "\n")
			}
			current.Violate(Violation{Signature: "panic/unguarded", Detail: fmt.Sprintf("panic in work item %d: %v\n%s", i, p, st), Replay: map[string]any{"mode": "panic", "item": i}})
		}
	}()
	fn(i)
}

// Catch runs f and returns the recovered panic value (nil if none).
func Catch(f func()) (p any) {
	defer func() {
		if x := recover(); x != nil {
			p = x
		}
	}()
	f()
	return nil
}
