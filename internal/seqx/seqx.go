// Package seqx is engine E1: explicit-state breadth-first search over the reachable states of a
// real (sequential) object. A state is represented by the shortest operation path that reaches it;
// the successor of a state under an operation is computed by replaying path+op on a fresh instance
// of the real implementation (real objects are never cloned). States are de-duplicated on a
// canonical key computed from a dump of the real object.
package seqx

import (
	"crypto/sha256"
	"fmt"
	"runtime"
	"runtime/debug"
	"strings"
	"sync"
	"sync/atomic"
	"time"
)

// Op is one operation of the alphabet. Meaning of the fields is up to the system.
type Op struct {
	K    uint8
	A, B int16
}

func (o Op) String() string { return fmt.Sprintf("%d(%d,%d)", o.K, o.A, o.B) }

// Result of replaying a path.
type Result struct {
	// Canonical key of the state reached. Empty key = do not expand (e.g. bound reached).
	Key string
	// Operations enabled in the reached state.
	Next []Op
	// Non-nil if the oracle disagreed on the last step or on the observation of the final state.
	Viol *Viol
	// Number of oracle comparisons made (observations), for evidence.
	Checks int
}

type Viol struct {
	Sig    string
	Detail string
}

// System is the thing being explored.
type System interface {
	// Run replays path on a fresh instance of the real implementation. The oracle is evaluated for
	// the LAST step only (all proper prefixes are states that were explored before) followed by a
	// full observation of the final state.
	Run(path []Op) Result
}

type Config struct {
	MaxStates int            // 0 = unlimited
	MaxDepth  int            // 0 = unlimited
	Deadline  time.Time      // zero = none
	Workers   int            // 0 = GOMAXPROCS
	Progress  func(d, n int) // optional
	// Optional: called once for every newly admitted state (from worker goroutines, in parallel)
	// with a path that reaches it. Used for observations that are too expensive to repeat on every
	// transition; sound because equal keys mean isomorphic (implementation, model) pairs.
	OnNewState func(path []Op) *Viol
}

type Stats struct {
	States      int64
	Transitions int64
	Checks      int64
	MaxDepth    int
	PerDepth    []int
	Capped      string // "" if the closure completed
	Viols       []FoundViol
	// A few (path,key) samples.
	SamplePaths [][]Op
}

type FoundViol struct {
	Path []Op
	Viol Viol
}

type hkey [16]byte

func hashKey(s string) hkey {
	h := sha256.Sum256([]byte(s))
	var k hkey
	copy(k[:], h[:16])
	return k
}

// Explore runs the breadth-first closure from the state reached by the empty path.
func Explore(sys System, cfg Config) Stats {
	return ExploreFrom(sys, [][]Op{nil}, cfg)
}

// ExploreFrom runs the closure from several seed paths (non-initial start states).
func ExploreFrom(sys System, seeds [][]Op, cfg Config) Stats {
	workers := cfg.Workers
	if workers <= 0 {
		workers = runtime.GOMAXPROCS(0)
	}
	var st Stats
	seen := map[hkey]struct{}{}
	type node struct {
		path []Op
		next []Op
	}
	var frontier []node
	var mu sync.Mutex
	addViol := func(p []Op, v *Viol) {
		mu.Lock()
		if len(st.Viols) < 20 {
			st.Viols = append(st.Viols, FoundViol{Path: append([]Op(nil), p...), Viol: *v})
		}
		mu.Unlock()
	}
	for _, s := range seeds {
		r := safeRun(sys, s)
		st.Checks += int64(r.Checks)
		if r.Viol != nil {
			addViol(s, r.Viol)
			continue
		}
		if r.Key == "" {
			continue
		}
		k := hashKey(r.Key)
		if _, ok := seen[k]; ok {
			continue
		}
		seen[k] = struct{}{}
		st.States++
		frontier = append(frontier, node{path: append([]Op(nil), s...), next: r.Next})
		if cfg.OnNewState != nil {
			if v := cfg.OnNewState(s); v != nil {
				addViol(s, v)
			}
		}
	}
	depth := 0
	for len(frontier) > 0 {
		st.PerDepth = append(st.PerDepth, len(frontier))
		if cfg.Progress != nil {
			cfg.Progress(depth, len(frontier))
		}
		if len(st.Viols) > 0 {
			// Shortest counterexamples first: stop at the first level that has any.
			break
		}
		if cfg.MaxDepth > 0 && depth >= cfg.MaxDepth {
			st.Capped = fmt.Sprintf("depth cap %d reached with %d unexpanded states", cfg.MaxDepth, len(frontier))
			break
		}
		if len(st.SamplePaths) < 4 {
			st.SamplePaths = append(st.SamplePaths, frontier[len(frontier)/2].path)
		}
		var next []node
		var idx int64 = -1
		var trans, checks int64
		var stop int32
		var wg sync.WaitGroup
		for w := 0; w < workers; w++ {
			wg.Add(1)
			go func() {
				defer wg.Done()
				var local []node
				var localKeys []hkey
				flush := func() {
					var fresh []node
					mu.Lock()
					for i, n := range local {
						if _, ok := seen[localKeys[i]]; ok {
							continue
						}
						if cfg.MaxStates > 0 && int(st.States) >= cfg.MaxStates {
							atomic.StoreInt32(&stop, 1)
							break
						}
						seen[localKeys[i]] = struct{}{}
						st.States++
						next = append(next, n)
						if cfg.OnNewState != nil {
							fresh = append(fresh, n)
						}
					}
					mu.Unlock()
					for _, n := range fresh {
						if v := cfg.OnNewState(n.path); v != nil {
							addViol(n.path, v)
						}
					}
					local = local[:0]
					localKeys = localKeys[:0]
				}
				for {
					if atomic.LoadInt32(&stop) != 0 {
						break
					}
					i := atomic.AddInt64(&idx, 1)
					if i >= int64(len(frontier)) {
						break
					}
					if i%64 == 0 && !cfg.Deadline.IsZero() && time.Now().After(cfg.Deadline) {
						atomic.StoreInt32(&stop, 2)
						break
					}
					n := frontier[i]
					for _, op := range n.next {
						p := make([]Op, len(n.path)+1)
						copy(p, n.path)
						p[len(n.path)] = op
						r := safeRun(sys, p)
						atomic.AddInt64(&trans, 1)
						atomic.AddInt64(&checks, int64(r.Checks))
						if r.Viol != nil {
							addViol(p, r.Viol)
							continue
						}
						if r.Key == "" {
							continue
						}
						local = append(local, node{path: p, next: r.Next})
						localKeys = append(localKeys, hashKey(r.Key))
					}
					if len(local) >= 256 {
						flush()
					}
				}
				flush()
			}()
		}
		wg.Wait()
		st.Transitions += trans
		st.Checks += checks
		switch stop {
		case 1:
			st.Capped = fmt.Sprintf("state cap %d reached at depth %d", cfg.MaxStates, depth+1)
		case 2:
			st.Capped = fmt.Sprintf("time budget reached at depth %d", depth+1)
		}
		depth++
		st.MaxDepth = depth
		if stop != 0 {
			break
		}
		frontier = next
	}
	if len(st.Viols) > 0 {
		// shortest first
		best := st.Viols[0]
		for _, v := range st.Viols {
			if len(v.Path) < len(best.Path) {
				best = v
			}
		}
		st.Viols = append([]FoundViol{best}, st.Viols...)
	}
	return st
}

// Enumerate explores ALL operation sequences (no state de-duplication) of length <= depth that
// extend one of the seed paths, depth-first, every sequence replayed on a fresh instance.
func Enumerate(sys System, seeds [][]Op, depth int, cfg Config) Stats {
	workers := cfg.Workers
	if workers <= 0 {
		workers = runtime.GOMAXPROCS(0)
	}
	var st Stats
	var mu sync.Mutex
	var stop int32
	var trans, checks int64
	addViol := func(p []Op, v *Viol) {
		mu.Lock()
		if len(st.Viols) < 20 {
			st.Viols = append(st.Viols, FoundViol{Path: append([]Op(nil), p...), Viol: *v})
		}
		mu.Unlock()
	}
	type job struct {
		path []Op
		next []Op
		left int
	}
	var dfs func(j job)
	dfs = func(j job) {
		if j.left == 0 || atomic.LoadInt32(&stop) != 0 {
			return
		}
		for _, op := range j.next {
			p := make([]Op, len(j.path)+1)
			copy(p, j.path)
			p[len(j.path)] = op
			r := safeRun(sys, p)
			n := atomic.AddInt64(&trans, 1)
			atomic.AddInt64(&checks, int64(r.Checks))
			if n%4096 == 0 && !cfg.Deadline.IsZero() && time.Now().After(cfg.Deadline) {
				atomic.StoreInt32(&stop, 2)
			}
			if r.Viol != nil {
				addViol(p, r.Viol)
				continue
			}
			dfs(job{path: p, next: r.Next, left: j.left - 1})
		}
	}
	// Expand two levels breadth-first to get enough independent jobs, then DFS in parallel.
	var jobs []job
	for _, s := range seeds {
		r := safeRun(sys, s)
		st.Checks += int64(r.Checks)
		if r.Viol != nil {
			addViol(s, r.Viol)
			continue
		}
		jobs = append(jobs, job{path: append([]Op(nil), s...), next: r.Next, left: depth})
	}
	// Expand breadth-first (in parallel) until there are enough independent jobs, then DFS.
	for lvl := 0; lvl < depth && len(jobs) < 64*workers; lvl++ {
		results := make([][]job, len(jobs))
		var jidx int64 = -1
		var ewg sync.WaitGroup
		for w := 0; w < workers; w++ {
			ewg.Add(1)
			go func() {
				defer ewg.Done()
				for {
					ji := atomic.AddInt64(&jidx, 1)
					if ji >= int64(len(jobs)) {
						return
					}
					j := jobs[ji]
					if j.left == 0 {
						continue
					}
					for _, op := range j.next {
						p := make([]Op, len(j.path)+1)
						copy(p, j.path)
						p[len(j.path)] = op
						r := safeRun(sys, p)
						atomic.AddInt64(&trans, 1)
						atomic.AddInt64(&checks, int64(r.Checks))
						if r.Viol != nil {
							addViol(p, r.Viol)
							continue
						}
						results[ji] = append(results[ji], job{path: p, next: r.Next, left: j.left - 1})
					}
				}
			}()
		}
		ewg.Wait()
		var nj []job
		for _, r := range results {
			nj = append(nj, r...)
		}
		jobs = nj
	}
	if len(jobs) > 0 && len(st.SamplePaths) < 4 {
		st.SamplePaths = append(st.SamplePaths, jobs[len(jobs)/2].path)
	}
	var idx int64 = -1
	var wg sync.WaitGroup
	for w := 0; w < workers; w++ {
		wg.Add(1)
		go func() {
			defer wg.Done()
			for {
				i := atomic.AddInt64(&idx, 1)
				if i >= int64(len(jobs)) {
					return
				}
				dfs(jobs[i])
			}
		}()
	}
	wg.Wait()
	st.Transitions = trans
	st.Checks += checks
	st.States = trans // every sequence is its own case here
	st.MaxDepth = depth
	if stop == 2 {
		st.Capped = "time budget reached during sequence enumeration"
	}
	return st
}

// safeRun runs one path; a panic that escapes the system's own guards (the code under check panicked
// where the check did not expect it) becomes a violation of that path instead of a crash of the check.
func safeRun(sys System, path []Op) (r Result) {
	defer func() {
		if p := recover(); p != nil {
			st := string(debug.Stack())
			if lines := strings.Split(st, "\n"); len(lines) > 24 {
				st = strings.Join(lines[:24], "\n")
			}
			r = Result{Checks: 1, Viol: &Viol{Sig: "panic/unguarded", Detail: fmt.Sprintf("panic while running the path: %v\n%s", p, st)}}
		}
	}()
	return sys.Run(path)
}
