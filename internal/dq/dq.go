//go:build verif

// Package dq drives the real deque.Deque next to a plain-slice model. Shared by C04 and C15.
package dq

import (
	"fmt"
	"math"
	"reflect"

	"github.com/bradenaw/juniper/container/deque"

	"verif/internal/seqx"
	"verif/internal/vx"
)

const (
	OpPushFront = iota
	OpPushBack
	OpPopFront
	OpPopBack
	OpSet    // A = index class: 0: -1, 1: 0, 2: len-1, 3: len, 4: len/2
	OpGrow   // A = argument class
	OpShrink // A = argument class
)

var OpNames = []string{"PushFront", "PushBack", "PopFront", "PopBack", "Set", "Grow", "Shrink"}

// D is a real deque with its model.
type D struct {
	Real  deque.Deque[int]
	Model []int
	next  int
}

func New() *D { return &D{next: 1} }

// Arg resolves an argument class of Grow/Shrink against the current state.
func (d *D) Arg(class int16) int {
	st := d.Real.VerifState()
	switch class {
	case 0:
		return -1
	case 1:
		return 0
	case 2:
		return 1
	case 3:
		return 2
	case 4:
		return 3
	case 5:
		return len(d.Model)
	case 6:
		return st.Cap
	case 7:
		return st.Cap - len(d.Model) // exactly the free space
	case 8:
		return st.Cap - len(d.Model) + 1
	case 9:
		return math.MaxInt // "at most this many extra": a no-op for Shrink (Grow skips it)
	}
	return 0
}

const ArgClasses = 10

func (d *D) Index(class int16) int {
	switch class {
	case 0:
		return -1
	case 1:
		return 0
	case 2:
		return len(d.Model) - 1
	case 3:
		return len(d.Model)
	default:
		return len(d.Model) / 2
	}
}

const IndexClasses = 5

func (d *D) OpStr(o seqx.Op) string {
	switch o.K {
	case OpSet:
		return fmt.Sprintf("Set(%d,·)", d.Index(o.A))
	case OpGrow, OpShrink:
		return fmt.Sprintf("%s(%d)", OpNames[o.K], d.Arg(o.A))
	}
	return OpNames[o.K]
}

type Dump struct {
	St    deque.VerifState
	Slots []int
}

func (d *D) Dump() Dump { return Dump{St: d.Real.VerifState(), Slots: d.Real.VerifSlots()} }

// sameContents compares two dumps ignoring the modification counter.
func sameContents(a, b Dump) bool {
	a.St.Gen, b.St.Gen = 0, 0
	return reflect.DeepEqual(a, b)
}

// Apply performs one operation on the real deque and the model and checks its immediate result.
// readable is the operation with its resolved arguments.
func (d *D) Apply(o seqx.Op) (readable string, v *seqx.Viol) {
	readable = d.OpStr(o)
	before := d.Dump()
	fail := func(sig, format string, a ...any) *seqx.Viol {
		return &seqx.Viol{Sig: sig + "/" + OpNames[o.K], Detail: readable + ": " + fmt.Sprintf(format, a...)}
	}
	mustPanicUnchanged := func(p any) *seqx.Viol {
		if p == nil {
			return fail("no-panic", "did not panic")
		}
		if !sameContents(before, d.Dump()) {
			return fail("panic-changed-state", "panicked but changed the deque: before %+v after %+v", before, d.Dump())
		}
		return nil
	}
	switch o.K {
	case OpPushFront:
		x := d.next
		d.next++
		if p := vx.Catch(func() { d.Real.PushFront(x) }); p != nil {
			return readable, fail("panic", "%v", p)
		}
		d.Model = append([]int{x}, d.Model...)
	case OpPushBack:
		x := d.next
		d.next++
		if p := vx.Catch(func() { d.Real.PushBack(x) }); p != nil {
			return readable, fail("panic", "%v", p)
		}
		d.Model = append(d.Model, x)
	case OpPopFront, OpPopBack:
		var got int
		p := vx.Catch(func() {
			if o.K == OpPopFront {
				got = d.Real.PopFront()
			} else {
				got = d.Real.PopBack()
			}
		})
		if len(d.Model) == 0 {
			return readable, mustPanicUnchanged(p)
		}
		if p != nil {
			return readable, fail("panic", "%v", p)
		}
		var want int
		if o.K == OpPopFront {
			want = d.Model[0]
			d.Model = d.Model[1:]
		} else {
			want = d.Model[len(d.Model)-1]
			d.Model = d.Model[:len(d.Model)-1]
		}
		d.Model = append([]int(nil), d.Model...)
		if got != want {
			return readable, fail("wrong-item", "returned %d, model %d", got, want)
		}
	case OpSet:
		i := d.Index(o.A)
		x := d.next
		d.next++
		p := vx.Catch(func() { d.Real.Set(i, x) })
		if i < 0 || i >= len(d.Model) {
			return readable, mustPanicUnchanged(p)
		}
		if p != nil {
			return readable, fail("panic", "%v", p)
		}
		d.Model[i] = x
	case OpGrow:
		n := d.Arg(o.A)
		if p := vx.Catch(func() { d.Real.Grow(n) }); p != nil {
			return readable, fail("panic", "%v", p)
		}
	case OpShrink:
		n := d.Arg(o.A)
		p := vx.Catch(func() { d.Real.Shrink(n) })
		if n < 0 {
			return readable, mustPanicUnchanged(p)
		}
		if p != nil {
			return readable, fail("panic", "%v", p)
		}
	}
	return readable, nil
}

// Observe is the full observation of the current state against the model.
func (d *D) Observe() *seqx.Viol {
	fail := func(sig, format string, a ...any) *seqx.Viol {
		return &seqx.Viol{Sig: sig, Detail: fmt.Sprintf(format, a...)}
	}
	before := d.Dump()
	n := len(d.Model)
	var ln int
	if p := vx.Catch(func() { ln = d.Real.Len() }); p != nil {
		return fail("observe/len-panic", "Len panicked: %v", p)
	}
	if ln != n {
		return fail("observe/len", "Len()=%d, model %d", ln, n)
	}
	for _, which := range []string{"Front", "Back"} {
		var got int
		p := vx.Catch(func() {
			if which == "Front" {
				got = d.Real.Front()
			} else {
				got = d.Real.Back()
			}
		})
		if n == 0 {
			if p == nil {
				return fail("observe/"+which+"-empty-no-panic", "%s on an empty deque did not panic", which)
			}
			continue
		}
		if p != nil {
			return fail("observe/"+which+"-panic", "%s panicked: %v", which, p)
		}
		want := d.Model[0]
		if which == "Back" {
			want = d.Model[n-1]
		}
		if got != want {
			return fail("observe/"+which, "%s()=%d, model %d", which, got, want)
		}
	}
	for i := -1; i <= n; i++ {
		var got int
		p := vx.Catch(func() { got = d.Real.Item(i) })
		if i < 0 || i >= n {
			if p == nil {
				return fail("observe/item-no-panic", "Item(%d) with Len %d did not panic", i, n)
			}
			continue
		}
		if p != nil {
			return fail("observe/item-panic", "Item(%d) panicked: %v", i, p)
		}
		if got != d.Model[i] {
			return fail("observe/item", "Item(%d)=%d, model %d", i, got, d.Model[i])
		}
	}
	var got []int
	p := vx.Catch(func() {
		it := d.Real.Iterate()
		for k := 0; k <= n+1; k++ {
			x, ok := it.Next()
			if !ok {
				return
			}
			got = append(got, x)
		}
	})
	if p != nil {
		return fail("observe/iterate-panic", "Iterate on an unchanged deque panicked: %v", p)
	}
	if !reflect.DeepEqual(append([]int{}, got...), append([]int{}, d.Model...)) {
		return fail("observe/iterate", "Iterate yields %v, model %v", got, d.Model)
	}
	after := d.Dump()
	if !reflect.DeepEqual(before, after) {
		return fail("observe/read-changed-state", "read-only calls changed the deque: %+v -> %+v", before, after)
	}
	// retention: every slot outside the live window holds the zero value; live slots hold the model
	live := map[int]bool{}
	if !after.St.NilBuf && n > 0 {
		for i := 0; i < n; i++ {
			live[(after.St.Front+i)%after.St.Cap] = true
		}
	}
	for i, x := range after.Slots {
		if !live[i] && x != 0 {
			return fail("retention", "slot %d outside the live window still holds %d (cap %d front %d back %d len %d)", i, x, after.St.Cap, after.St.Front, after.St.Back, n)
		}
	}
	return nil
}

// Key is the canonical state key: buffer geometry plus the occupancy pattern. Values are opaque.
func (d *D) Key() string {
	x := d.Dump()
	occ := make([]byte, len(x.Slots))
	for i, v := range x.Slots {
		if v != 0 {
			occ[i] = '1'
		} else {
			occ[i] = '0'
		}
	}
	return fmt.Sprintf("%v/%d/%d/%d/%s", x.St.NilBuf, x.St.Cap, x.St.Front, x.St.Back, occ)
}

// Enabled returns the alphabet in the current state.
func (d *D) Enabled() []seqx.Op {
	ops := []seqx.Op{{K: OpPushFront}, {K: OpPushBack}, {K: OpPopFront}, {K: OpPopBack}}
	seenIdx := map[int]bool{}
	for c := int16(0); c < IndexClasses; c++ {
		if i := d.Index(c); !seenIdx[i] {
			seenIdx[i] = true
			ops = append(ops, seqx.Op{K: OpSet, A: c})
		}
	}
	seenArg := map[int]bool{}
	for c := int16(0); c < ArgClasses; c++ {
		if n := d.Arg(c); !seenArg[n] {
			seenArg[n] = true
			if n != math.MaxInt {
				ops = append(ops, seqx.Op{K: OpGrow, A: c})
			}
			ops = append(ops, seqx.Op{K: OpShrink, A: c})
		}
	}
	return ops
}
