// vxmerge <PROP> <tier> <part files...>: combines the parts of one check into its evidence file
// and prints the protocol lines.
package main

import (
	"os"

	"verif/internal/vx"
)

func main() {
	prop, tier, files := os.Args[1], os.Args[2], os.Args[3:]
	os.Args = os.Args[:1]
	vx.Merge(prop, tier, files)
}
