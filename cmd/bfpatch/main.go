// bfpatch <btree.go> <fanout> <out.go>: writes a copy of the B-tree source in which the VALUE of the
// constant branchFactor is replaced. Everything else is the unmodified current source; the copy is
// injected with `go build -overlay`, /repo is never written to. Exit 3 if the constant is not found
// (the scaled configurations are then skipped and the evidence says so).
package main

import (
	"fmt"
	"go/ast"
	"go/parser"
	"go/token"
	"os"
)

func main() {
	src, err := os.ReadFile(os.Args[1])
	if err != nil {
		fmt.Fprintln(os.Stderr, err)
		os.Exit(2)
	}
	fset := token.NewFileSet()
	f, err := parser.ParseFile(fset, os.Args[1], src, 0)
	if err != nil {
		fmt.Fprintln(os.Stderr, err)
		os.Exit(2)
	}
	for _, d := range f.Decls {
		gd, ok := d.(*ast.GenDecl)
		if !ok || gd.Tok != token.CONST {
			continue
		}
		for _, sp := range gd.Specs {
			vs := sp.(*ast.ValueSpec)
			for i, n := range vs.Names {
				if n.Name == "branchFactor" && i < len(vs.Values) {
					if lit, ok := vs.Values[i].(*ast.BasicLit); ok && lit.Kind == token.INT {
						a, b := fset.Position(lit.Pos()).Offset, fset.Position(lit.End()).Offset
						out := append(append(append([]byte{}, src[:a]...), []byte(os.Args[2])...), src[b:]...)
						if err := os.WriteFile(os.Args[3], out, 0o644); err != nil {
							fmt.Fprintln(os.Stderr, err)
							os.Exit(2)
						}
						return
					}
				}
			}
		}
	}
	fmt.Fprintln(os.Stderr, "const branchFactor = <int literal> not found")
	os.Exit(3)
}
