//go:build mcbuild

// C12: chans.Merge / chans.Replicate / stream.Merge. Engine E2.
package main

import (
	"strings"
	"time"

	"verif/mc/mcx"
	"verif/props/c12/scn"
)

func main() {
	var scs []mcx.Scenario
	for _, s := range scn.All() {
		fam := strings.SplitN(s.Name, "/", 2)[0]
		if fam == "streamMerge" {
			fam = "stream.Merge"
		}
		sc := mcx.Scenario{Name: s.Name, Body: s.Body, Bound: 2, ThoroughBound: 3, SwitchBound: 3, Family: fam, MaxTime: 3 * time.Minute}
		if strings.Contains(s.Name, "closeOrder") {
			// all inputs are ready at once here: every select has up to five ready arms. The close
			// order is scripted, so a few arm choices per execution are enough.
			sc.Bound, sc.ThoroughBound, sc.SwitchBound = 1, 2, 2
		}
		if fam == "stream.Merge" {
			sc.SwitchBound = 4
		}
		if strings.Contains(s.Name, "many-inputs") || strings.Contains(s.Name, "inputs=[1 1 1 1 1 1 1 1 1 1 1 1 1 1 1 1 1") {
			// 17 and more inputs: the point is the number, not the interleaving
			sc.Bound, sc.ThoroughBound, sc.SwitchBound = 0, 1, 1
		}
		scs = append(scs, sc)
	}
	mcx.Main("C12", scs, []string{
		"inputs of stream.Merge honour their context (Next returns the context's error once it is cancelled), as the 'without needing further input' clause presupposes",
	})
}
