// Package scn holds the C12 scenario bodies (chans.Merge, chans.Replicate, stream.Merge).
package scn

import (
	"context"
	"fmt"
	"sort"
	"sync"

	"github.com/bradenaw/juniper/chans"
	"github.com/bradenaw/juniper/stream"

	"verif/mc/hx"
	"verif/props/sx"
)

type Scenario struct {
	Name string
	Body func()
}

func checkInterleaving(what string, got []int, inputs [][]int) {
	// same multiset, each input's order preserved. Values are unique: input i holds 10*i+j.
	want := 0
	pos := map[int][2]int{}
	for i, in := range inputs {
		want += len(in)
		for j, v := range in {
			pos[v] = [2]int{i, j}
		}
	}
	seen := map[int]bool{}
	last := map[int]int{}
	for _, v := range got {
		p, ok := pos[v]
		if !ok {
			hx.Fail("foreign-value", "%s delivered %d which no input held (zero value of a closed input?)", what, v)
		}
		if seen[v] {
			hx.Fail("duplicate", "%s delivered %d twice", what, v)
		}
		seen[v] = true
		if l, ok := last[p[0]]; ok && p[1] < l {
			hx.Fail("input-order", "%s delivered input %d's values out of order: %v", what, p[0], got)
		}
		last[p[0]] = p[1]
	}
	if len(got) != want {
		hx.Fail("lost-value", "%s delivered %v, inputs were %v", what, got, inputs)
	}
}

// chans.Merge with pre-filled buffered inputs that a driver thread closes in a scripted order.
func chansMergeScripted(sizes []int, closeOrder []int) Scenario {
	name := fmt.Sprintf("chansMerge/inputs=%v/closeOrder=%v", sizes, closeOrder)
	return Scenario{name, func() {
		var ins []chan int
		var ro []<-chan int
		var inputs [][]int
		for i, n := range sizes {
			c := make(chan int, n+1)
			var vals []int
			for j := 0; j < n; j++ {
				c <- 10*i + j
				vals = append(vals, 10*i+j)
			}
			ins = append(ins, c)
			ro = append(ro, c)
			inputs = append(inputs, vals)
		}
		out := make(chan int)
		var got []int
		var wg sync.WaitGroup
		wg.Add(2)
		go func() {
			defer wg.Done()
			for v := range out {
				got = append(got, v)
			}
		}()
		go func() {
			defer wg.Done()
			for _, i := range closeOrder {
				close(ins[i])
			}
		}()
		chans.Merge(out, ro...)
		// out is unbuffered, so Merge cannot return before its last send was received; an early
		// return shows as a lost value (or a send on the closed out) below.
		close(out)
		wg.Wait()
		checkInterleaving("chans.Merge", got, inputs)
		hx.Outcome("%v", got)
	}}
}

// chans.Merge with unbuffered inputs fed by producer threads (relative speeds).
func chansMergeProducers(sizes []int) Scenario {
	name := fmt.Sprintf("chansMerge/producers=%v", sizes)
	return Scenario{name, func() {
		var ro []<-chan int
		var inputs [][]int
		var wg sync.WaitGroup
		for i, n := range sizes {
			c := make(chan int)
			ro = append(ro, c)
			var vals []int
			for j := 0; j < n; j++ {
				vals = append(vals, 10*i+j)
			}
			inputs = append(inputs, vals)
			wg.Add(1)
			go func() {
				defer wg.Done()
				for _, v := range vals {
					c <- v
				}
				close(c)
			}()
		}
		out := make(chan int)
		var got []int
		wg.Add(1)
		go func() {
			defer wg.Done()
			for v := range out {
				got = append(got, v)
			}
		}()
		chans.Merge(out, ro...)
		close(out)
		wg.Wait()
		checkInterleaving("chans.Merge", got, inputs)
		hx.Outcome("%v", got)
	}}
}

// chans.Merge given the same input channel twice (plus one other input): every value is still
// delivered exactly once and Merge finishes when both are closed.
func chansMergeSameInputTwice() Scenario {
	return Scenario{"chansMerge/same-input-twice", func() {
		a := make(chan int, 3)
		a <- 0
		a <- 1
		b := make(chan int, 2)
		b <- 10
		out := make(chan int)
		var got []int
		var wg sync.WaitGroup
		wg.Add(2)
		go func() {
			defer wg.Done()
			for v := range out {
				got = append(got, v)
			}
		}()
		go func() {
			defer wg.Done()
			close(b)
			close(a)
		}()
		chans.Merge[int](out, a, b, a)
		close(out)
		wg.Wait()
		checkInterleaving("chans.Merge", got, [][]int{{0, 1}, {10}})
		hx.Outcome("%v", got)
	}}
}

func replicate(n int, caps []int) Scenario { return replicateX(n, caps, false) }

// dupFirst: the first destination is listed twice, so it receives every value twice.
func replicateX(n int, caps []int, dupFirst bool) Scenario {
	name := fmt.Sprintf("replicate/n=%d/dstCaps=%v", n, caps)
	if dupFirst {
		name += "/first-destination-listed-twice"
	}
	return Scenario{name, func() {
		src := make(chan int, n)
		var vals []int
		for j := 0; j < n; j++ {
			vals = append(vals, j+1)
		}
		var dsts []chan<- int
		gots := make([][]int, len(caps))
		var wg sync.WaitGroup
		var all []chan int
		for i, c := range caps {
			i := i
			d := make(chan int, c)
			dsts = append(dsts, d)
			all = append(all, d)
			wg.Add(1)
			go func() {
				defer wg.Done()
				for v := range d {
					gots[i] = append(gots[i], v)
				}
			}()
		}
		wg.Add(1)
		go func() {
			defer wg.Done()
			for _, v := range vals {
				src <- v
			}
			close(src)
		}()
		if dupFirst {
			dsts = append(dsts, dsts[0])
		}
		chans.Replicate(src, dsts...)
		for _, d := range all {
			close(d)
		}
		wg.Wait()
		for i := range gots {
			want := vals
			if dupFirst && i == 0 {
				want = nil
				for _, v := range vals {
					want = append(want, v, v)
				}
			}
			if fmt.Sprint(gots[i]) != fmt.Sprint(want) && !(len(want) == 0 && len(gots[i]) == 0) {
				hx.Fail("replicate", "destination %d received %v, want %v (source %v)", i, gots[i], want, vals)
			}
		}
		hx.Outcome("%v", gots)
	}}
}

// stream.Merge over scripted inputs. closeAfter < 0: read to the end (plus two more calls).
func streamMerge(scripts [][]sx.Step, closeAfter int, yield bool) Scenario {
	return streamMergeX(scripts, closeAfter, yield, false)
}

// perCallCtx: every Next call gets a context of its own that is cancelled as soon as the call has
// returned (the usual `ctx, cancel := context.WithTimeout(...); defer cancel()` around one call).
func streamMergeX(scripts [][]sx.Step, closeAfter int, yield, perCallCtx bool) Scenario {
	return streamMergeY(scripts, closeAfter, yield, perCallCtx, false)
}

// expireFirst: the consumer's first calls use a context that another thread cancels at any time; a
// call that gives up costs nothing: the consumer carries on with a live context.
func streamMergeY(scripts [][]sx.Step, closeAfter int, yield, perCallCtx, expireFirst bool) Scenario {
	name := fmt.Sprintf("streamMerge/inputs=%s/closeAfter=%d/yield=%v", scriptNames(scripts), closeAfter, yield)
	if perCallCtx {
		name += "/per-call-contexts"
	}
	if expireFirst {
		name += "/first-context-expires"
	}
	return Scenario{name, func() {
		var srcs []*sx.Src
		var ins []stream.Stream[int]
		var inputs [][]int
		var firstErrs []error
		for i, sc := range scripts {
			s := &sx.Src{Name: fmt.Sprintf("in%d", i), Steps: sc, Yield: yield}
			var vals []int
			for _, st := range sc {
				if st.Err != nil {
					firstErrs = append(firstErrs, st.Err)
					// a failing input is not asked again by Merge; make the error permanent
					s.Final = st.Err
					break
				}
				if !st.Block {
					vals = append(vals, st.Val)
				}
			}
			inputs = append(inputs, vals)
			srcs = append(srcs, s)
			ins = append(ins, s)
		}
		m := stream.Merge(ins...)
		ctx := context.Background()
		var got []int
		var end error
		var expiring context.Context
		if expireFirst {
			var cancelExp context.CancelFunc
			expiring, cancelExp = context.WithCancel(ctx)
			go cancelExp()
		}
		for closeAfter < 0 || len(got) < closeAfter {
			cctx, cancel := ctx, func() {}
			if perCallCtx {
				cctx, cancel = context.WithCancel(ctx)
			}
			if expiring != nil {
				cctx = expiring
			}
			v, err := m.Next(cctx)
			cancel()
			if err != nil && expiring != nil && err == context.Canceled && len(firstErrs) == 0 {
				expiring = nil // that call gave up; nothing is lost by it
				continue
			}
			if err != nil {
				end = err
				break
			}
			got = append(got, v)
		}
		if end == stream.End {
			// (after an error a value that was already being handed over may still arrive; only the
			// normal end is required to be sticky)
			for i := 0; i < 2; i++ {
				if _, err := m.Next(ctx); err != end {
					hx.Fail("end-not-sticky", "Merge reported %v and then %v", end, err)
				}
			}
		}
		m.Close()
		hx.Atomically(func() {
			for _, s := range srcs {
				if s.Closes == 0 {
					hx.Fail("source/not-closed-when-Close-returned", "Close of the merged stream has returned but %s has not been closed yet", s.Name)
				}
			}
		})
		hx.Quiesce()
		if live := hx.Live(); len(live) > 0 {
			hx.Fail("goroutine-left-after-Close", "after the merged stream was closed these threads are still alive: %v", live)
		}
		for _, s := range srcs {
			if sig, d := s.Check(true); sig != "" {
				hx.Fail(sig, "%s", d)
			}
		}
		// values: a prefix-closed interleaving
		sub := make([][]int, len(inputs))
		for i := range inputs {
			sub[i] = inputs[i]
		}
		if end == stream.End {
			if len(firstErrs) > 0 {
				hx.Fail("error-lost", "an input failed with %v but Merge reported End", firstErrs[0])
			}
			checkInterleaving("stream.Merge", got, inputs)
		} else {
			// partial: no foreign values, no duplicates, per-input order
			pos := map[int][2]int{}
			for i, in := range inputs {
				for j, v := range in {
					pos[v] = [2]int{i, j}
				}
			}
			seen := map[int]bool{}
			next := map[int]int{}
			for _, v := range got {
				p, ok := pos[v]
				if !ok || seen[v] {
					hx.Fail("foreign-or-duplicate", "stream.Merge delivered %v from inputs %v", got, inputs)
				}
				seen[v] = true
				if p[1] != next[p[0]] {
					hx.Fail("input-order", "stream.Merge delivered input %d out of order or with a gap: %v", p[0], got)
				}
				next[p[0]]++
			}
			if end != nil {
				ok := false
				for _, e := range firstErrs {
					if e == end {
						ok = true
					}
				}
				if !ok {
					hx.Fail("wrong-error", "stream.Merge reported %v, inputs fail with %v", end, firstErrs)
				}
			}
		}
		sort.Ints(got)
		hx.Outcome("n=%d end=%v", len(got), end)
	}}
}

// streamMergeMany: idle inputs that stay open and silent, plus busy ones with one value each: every
// value is yielded although the idle inputs never produce anything (then the consumer closes).
func streamMergeMany(idle, busy int) Scenario {
	return Scenario{fmt.Sprintf("streamMerge/many-inputs/idle=%d/busy=%d", idle, busy), func() {
		var srcs []*sx.Src
		var ins []stream.Stream[int]
		for i := 0; i < idle; i++ {
			s := &sx.Src{Name: fmt.Sprintf("idle%d", i), Steps: []sx.Step{{Block: true}}}
			srcs = append(srcs, s)
			ins = append(ins, s)
		}
		want := map[int]bool{}
		for i := 0; i < busy; i++ {
			s := &sx.Src{Name: fmt.Sprintf("busy%d", i), Steps: []sx.Step{{Val: 100 + i}, {Block: true}}}
			srcs = append(srcs, s)
			ins = append(ins, s)
			want[100+i] = true
		}
		m := stream.Merge(ins...)
		for i := 0; i < busy; i++ {
			v, err := m.Next(context.Background()) // (a value that is never yielded shows as a deadlock)
			if err != nil || !want[v] {
				hx.Fail("lost-value", "stream.Merge over %d idle and %d busy inputs returned (%d,%v)", idle, busy, v, err)
			}
			delete(want, v)
		}
		m.Close()
		hx.Atomically(func() {
			for _, s := range srcs {
				if s.Closes == 0 {
					hx.Fail("source/not-closed-when-Close-returned", "Close of the merged stream has returned but %s has not been closed yet", s.Name)
				}
			}
		})
		hx.Outcome("ok")
	}}
}

func scriptNames(scripts [][]sx.Step) string {
	s := "["
	for i, sc := range scripts {
		if i > 0 {
			s += " "
		}
		for _, st := range sc {
			switch {
			case st.Err == context.Canceled:
				s += "cE" // the source's own error happens to be context.Canceled
			case st.Err == context.DeadlineExceeded:
				s += "dE" // ... or context.DeadlineExceeded
			case st.Err != nil:
				s += "E"
			case st.Block:
				s += "B"
			default:
				s += "v"
			}
		}
		if len(sc) == 0 {
			s += "-"
		}
	}
	return s + "]"
}

func vals(base, n int) []sx.Step {
	var out []sx.Step
	for j := 0; j < n; j++ {
		out = append(out, sx.Step{Val: base + j})
	}
	return out
}

func perms(n int) [][]int {
	if n == 0 {
		return [][]int{{}}
	}
	var out [][]int
	for _, p := range perms(n - 1) {
		for i := 0; i <= len(p); i++ {
			q := append(append(append([]int{}, p[:i]...), n-1), p[i:]...)
			out = append(out, q)
		}
	}
	return out
}

func All() []Scenario {
	var out []Scenario
	out = append(out, chansMergeScripted(nil, nil), chansMergeScripted([]int{2}, []int{0}), chansMergeScripted([]int{0}, []int{0}))
	for _, p := range perms(2) {
		out = append(out, chansMergeScripted([]int{1, 2}, p))
	}
	for _, p := range perms(3) {
		out = append(out, chansMergeScripted([]int{1, 1, 1}, p))
	}
	out = append(out, chansMergeScripted([]int{2, 0, 1}, []int{1, 2, 0}))
	for _, p := range [][]int{{0, 1, 2, 3}, {3, 2, 1, 0}, {1, 0, 3, 2}, {2, 3, 0, 1}} {
		out = append(out, chansMergeScripted([]int{1, 1, 1, 1}, p))
	}
	for _, p := range [][]int{{0, 1, 2, 3, 4}, {4, 3, 2, 1, 0}, {2, 0, 4, 1, 3}, {1, 2, 3, 4, 0}} {
		out = append(out, chansMergeScripted([]int{1, 1, 1, 1, 1}, p))
	}
	// many inputs (beyond any small fixed number a special path could be written for)
	out = append(out,
		chansMergeScripted([]int{1, 1, 1, 1, 1, 1, 1, 1, 1}, []int{0, 1, 2, 3, 4, 5, 6, 7, 8}),
		chansMergeScripted([]int{1, 0, 1, 0, 1, 0, 1, 0, 1, 1}, []int{9, 8, 7, 6, 5, 4, 3, 2, 1, 0}),
		chansMergeSameInputTwice(),
		chansMergeScripted(ones(17), upTo(17)), chansMergeScripted(ones(33), downFrom(33)),
		replicateX(2, []int{1}, true), replicateX(1, []int{0, 1}, true),
	)
	out = append(out, chansMergeProducers([]int{1, 1}), chansMergeProducers([]int{2, 1}), chansMergeProducers([]int{1, 1, 1}))
	out = append(out, replicate(2, []int{0}), replicate(2, []int{0, 1}), replicate(0, []int{0}), replicate(2, nil), replicate(3, []int{1, 0}))
	e := sx.Step{Err: sx.ErrSrc}
	b := sx.Step{Block: true}
	out = append(out,
		streamMerge(nil, -1, false),
		streamMerge([][]sx.Step{vals(0, 2)}, -1, false),
		streamMerge([][]sx.Step{vals(0, 1), vals(10, 1)}, -1, true),
		streamMerge([][]sx.Step{vals(0, 2), {}}, -1, false),
		streamMerge([][]sx.Step{vals(0, 1), vals(10, 1), vals(20, 1)}, -1, false),
		streamMerge([][]sx.Step{{e}}, -1, false),
		streamMerge([][]sx.Step{append(vals(0, 1), e)}, -1, false),
		streamMerge([][]sx.Step{append(vals(0, 1), e), vals(10, 2)}, -1, true),
		streamMerge([][]sx.Step{vals(0, 1), append(vals(10, 1), e)}, -1, false),
		// an input whose own error is context.Canceled
		streamMerge([][]sx.Step{{{Err: context.Canceled}}}, -1, false),
		streamMerge([][]sx.Step{append(vals(0, 1), sx.Step{Err: context.Canceled}), vals(10, 1)}, -1, false),
		streamMerge([][]sx.Step{append(vals(0, 1), sx.Step{Err: context.DeadlineExceeded}), vals(10, 1)}, -1, false),
		streamMergeX([][]sx.Step{vals(0, 2), vals(10, 1)}, -1, false, true),
		streamMergeX([][]sx.Step{append(vals(0, 1), e)}, -1, false, true),
		streamMergeMany(16, 1),
		streamMergeY([][]sx.Step{vals(0, 2), vals(10, 1)}, -1, false, false, true),
		streamMergeY([][]sx.Step{vals(0, 1), {}}, -1, true, false, true),
		streamMerge([][]sx.Step{vals(0, 2), vals(10, 1)}, 0, false),
		streamMerge([][]sx.Step{vals(0, 2), vals(10, 1)}, 1, true),
		streamMerge([][]sx.Step{append(vals(0, 1), b), vals(10, 1)}, 2, false),
		streamMerge([][]sx.Step{{b}, {b}}, 0, false),
	)
	return out
}

func ones(n int) []int {
	out := make([]int, n)
	for i := range out {
		out[i] = 1
	}
	return out
}

func upTo(n int) []int {
	out := make([]int, n)
	for i := range out {
		out[i] = i
	}
	return out
}

func downFrom(n int) []int {
	out := make([]int, n)
	for i := range out {
		out[i] = n - 1 - i
	}
	return out
}
