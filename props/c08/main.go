//go:build verif && !mcbuild

// C08 / C09, sequential part. Engine E1 (deviation-bounded fault enumeration on the real code):
// for every stream combinator, reducer and pipeline of two, every input up to a length bound, every
// fault position and kind (permanent source error, transient source error followed by recovery,
// expired per-call context, callback error) and every pair of non-terminal faults — and, for C09,
// every abandonment point — the real combinators are driven over instrumented scripted sources.
//
//	c08 C08|C09 quick|thorough
package main

import (
	"context"
	"errors"
	"fmt"
	"io"
	"math/rand"
	"os"
	"reflect"
	"sync"
	"sync/atomic"

	"github.com/bradenaw/juniper/iterator"
	"github.com/bradenaw/juniper/stream"
	"github.com/bradenaw/juniper/xmath/xrand"

	"verif/internal/vx"
	"verif/props/sx"
)

var errTransient = errors.New("transient-source-error")
var errPerm = errors.New("permanent-source-error")
var errFn = errors.New("callback-error")
var errFnOnce = errors.New("callback-error-once")

// errors that WRAP the end sentinel are errors, not the end
var errPermW = fmt.Errorf("permanent failure while reading: %w", stream.End)

// permErrs: the error value of each permanent-failure fault kind. Besides an error of the harness's own
// and one that wraps the end sentinel: values that a combinator might mistake for an end of input or
// for a cancellation of its own making.
var permErrs = map[string]error{"perm": errPerm, "permW": errPermW, "permEOF": io.EOF, "permDL": context.DeadlineExceeded}

func isPermErr(err error) bool {
	for _, e := range permErrs {
		if err == e {
			return true
		}
	}
	return false
}

var errTransientW = fmt.Errorf("transient failure while reading: %w", stream.End)

// sstream is the type-erased view of a stream under test.
type sstream interface {
	Next(ctx context.Context) (string, error)
	Close()
}

type erased[T any] struct{ s stream.Stream[T] }

func (e erased[T]) Next(ctx context.Context) (string, error) {
	v, err := e.s.Next(ctx)
	if err != nil {
		return "", err
	}
	return fmt.Sprint(v), nil
}
func (e erased[T]) Close() { e.s.Close() }

func erase[T any](s stream.Stream[T]) sstream { return erased[T]{s} }

// callbacks scripted to fail at a given invocation.
type cb struct {
	n      int
	failAt int // -1 = never
	onceAt int // -1 = never: fails once at this invocation, the retry succeeds
	failed bool
}

func (c *cb) tick() error {
	i := c.n
	c.n++
	if i == c.failAt {
		c.failed = true
		return errFn
	}
	if i == c.onceAt {
		c.onceAt = -1
		c.n-- // the retried invocation is the same logical one
		return errFnOnce
	}
	return nil
}

// A rig builds a stream (or runs a reducer) over scripted sources.
type rig struct {
	name string
	// number of input sources (Join uses 2, Flatten wraps its sources as inner streams)
	nsrc  int
	hasCB bool
	// the combinator keeps its looked-ahead item when its callback fails (While's item/has pair):
	// a callback that fails once and then succeeds must not cost an item
	cbRetry bool
	// the rig has no scripted source that could fail: only context faults apply
	noSrcFaults bool
	build       func(srcs []*sx.Src, c *cb) sstream                                         // nil for reducers
	reduce      func(ctx context.Context, srcs []*sx.Src, c *cb) (result string, err error) // reducers
	intInt      func(s stream.Stream[int], c *cb) stream.Stream[int]                        // for pipelines
}

func intRig(name string, hasCB bool, f func(s stream.Stream[int], c *cb) stream.Stream[int]) rig {
	return rig{name: name, nsrc: 1, hasCB: hasCB, intInt: f, build: func(srcs []*sx.Src, c *cb) sstream { return erase(f(srcs[0], c)) }}
}

func whileRig(name string, hasCB bool, f func(s stream.Stream[int], c *cb) stream.Stream[int]) rig {
	r := intRig(name, hasCB, f)
	r.cbRetry = true
	return r
}

func rigs() []rig {
	rs := []rig{
		{name: "Chunk(2)", nsrc: 1, build: func(s []*sx.Src, c *cb) sstream { return erase(stream.Chunk[int](s[0], 2)) }},
		{name: "Chunk(3)", nsrc: 1, build: func(s []*sx.Src, c *cb) sstream { return erase(stream.Chunk[int](s[0], 3)) }},
		intRig("Compact", false, func(s stream.Stream[int], c *cb) stream.Stream[int] { return stream.Compact(s) }),
		intRig("CompactFunc", false, func(s stream.Stream[int], c *cb) stream.Stream[int] {
			return stream.CompactFunc(s, func(a, b int) bool { return a == b })
		}),
		intRig("Filter", true, func(s stream.Stream[int], c *cb) stream.Stream[int] {
			return stream.Filter(s, func(ctx context.Context, x int) (bool, error) { return x != 2, c.tick() })
		}),
		intRig("First(0)", false, func(s stream.Stream[int], c *cb) stream.Stream[int] { return stream.First(s, 0) }),
		intRig("First(2)", false, func(s stream.Stream[int], c *cb) stream.Stream[int] { return stream.First(s, 2) }),
		intRig("First(9)", false, func(s stream.Stream[int], c *cb) stream.Stream[int] { return stream.First(s, 9) }),
		intRig("FlattenSlices.Chunk(2)", false, func(s stream.Stream[int], c *cb) stream.Stream[int] {
			return stream.FlattenSlices(stream.Chunk(s, 2))
		}),
		intRig("Flatten.Runs", false, func(s stream.Stream[int], c *cb) stream.Stream[int] {
			return stream.Flatten(stream.Runs(s, func(a, b int) bool { return a == b }))
		}),
		intRig("Join(s,empty)", false, func(s stream.Stream[int], c *cb) stream.Stream[int] {
			return stream.Join(s, stream.Empty[int]())
		}),
		intRig("Map", true, func(s stream.Stream[int], c *cb) stream.Stream[int] {
			return stream.Map(s, func(ctx context.Context, x int) (int, error) { return x + 10, c.tick() })
		}),
		whileRig("While", true, func(s stream.Stream[int], c *cb) stream.Stream[int] {
			return stream.While(s, func(ctx context.Context, x int) (bool, error) { return x != 3, c.tick() })
		}),
		intRig("WithPeek", false, func(s stream.Stream[int], c *cb) stream.Stream[int] { return peekDriver{stream.WithPeek(s)} }),
		{name: "Join(a,b)", nsrc: 2, build: func(s []*sx.Src, c *cb) sstream { return erase(stream.Join[int](s[0], s[1])) }},
		// FromIterator and Chan have no stream source to fail; what can fail is the per-call context
		// (with data available and an expired context either answer is acceptable, and costs nothing)
		{name: "FromIterator", nsrc: 1, noSrcFaults: true, build: func(s []*sx.Src, c *cb) sstream {
			return closing{erase(stream.FromIterator(iterator.Slice(srcItems(s[0])))), s[0]}
		}},
		{name: "Chan", nsrc: 1, noSrcFaults: true, build: func(s []*sx.Src, c *cb) sstream {
			items := srcItems(s[0])
			ch := make(chan int, len(items))
			for _, x := range items {
				ch <- x
			}
			close(ch)
			return closing{erase(stream.Chan[int](ch)), s[0]}
		}},
		{name: "Flatten(a,b)", nsrc: 2, build: func(s []*sx.Src, c *cb) sstream {
			outer := &sx.SrcOf[stream.Stream[int]]{Name: "outer", Items: []stream.Stream[int]{s[0], s[1]}}
			outers.Store(s[0], outer)
			return erase(stream.Flatten[int](outer))
		}},
		{name: "Runs(collect each)", nsrc: 1, build: func(s []*sx.Src, c *cb) sstream {
			return erase[[]int](runsCollector{stream.Runs[int](s[0], func(a, b int) bool { return a == b })})
		}},
		// the consumer looks at the first item of every run only; the outer Next skips the rest itself
		{name: "Runs(first of each)", nsrc: 1, build: func(s []*sx.Src, c *cb) sstream {
			return erase[int](runsFirst{stream.Runs[int](s[0], func(a, b int) bool { return a == b })})
		}},
		// many inner streams (an implementation that batches or caps its bookkeeping would show here);
		// used by the long-input pass only (nsrc > 2)
		{name: "Flatten(12 inner)", nsrc: 12, build: func(s []*sx.Src, c *cb) sstream {
			var items []stream.Stream[int]
			for _, x := range s {
				items = append(items, x)
			}
			outer := &sx.SrcOf[stream.Stream[int]]{Name: "outer", Items: items}
			outers.Store(s[0], outer)
			return erase(stream.Flatten[int](outer))
		}},
		{name: "Join(12 streams)", nsrc: 12, build: func(s []*sx.Src, c *cb) sstream {
			var items []stream.Stream[int]
			for _, x := range s {
				items = append(items, x)
			}
			return erase(stream.Join[int](items...))
		}},
		// reducers
		{name: "Collect", nsrc: 1, reduce: func(ctx context.Context, s []*sx.Src, c *cb) (string, error) {
			r, err := stream.Collect[int](ctx, s[0])
			return fmt.Sprint(r), err
		}},
		{name: "Last(2)", nsrc: 1, reduce: func(ctx context.Context, s []*sx.Src, c *cb) (string, error) {
			r, err := stream.Last[int](ctx, s[0], 2)
			return fmt.Sprint(r), err
		}},
		{name: "Last(0)", nsrc: 1, reduce: func(ctx context.Context, s []*sx.Src, c *cb) (string, error) {
			r, err := stream.Last[int](ctx, s[0], 0)
			return fmt.Sprint(r), err
		}},
		{name: "One", nsrc: 1, reduce: func(ctx context.Context, s []*sx.Src, c *cb) (string, error) {
			r, err := stream.One[int](ctx, s[0])
			if err == stream.ErrEmpty || err == stream.ErrMoreThanOne {
				return err.Error(), nil
			}
			return fmt.Sprint(r), err
		}},
		{name: "Reduce", nsrc: 1, hasCB: true, reduce: func(ctx context.Context, s []*sx.Src, c *cb) (string, error) {
			r, err := stream.Reduce[int, int](ctx, s[0], 0, func(acc, x int) (int, error) { return acc*10 + x, c.tick() })
			if err != nil {
				return "", err
			}
			return fmt.Sprint(r), nil
		}},
		{name: "Collect(Chunk(2))", nsrc: 1, reduce: func(ctx context.Context, s []*sx.Src, c *cb) (string, error) {
			r, err := stream.Collect(ctx, stream.Chunk[int](s[0], 2))
			return fmt.Sprint(r), err
		}},
	}
	return rs
}

// srcItems returns the values a scripted source would yield (for rigs that feed them through a
// constructor instead of the source itself).
func srcItems(s *sx.Src) []int {
	var out []int
	for _, st := range s.Steps {
		if st.Err == nil && !st.Block {
			out = append(out, st.Val)
		}
	}
	return out
}

// closing marks the (unused) scripted source as closed when the stream under test is closed, so
// that the ownership bookkeeping of C09 stays uniform.
type closing struct {
	sstream
	src *sx.Src
}

func (c closing) Close() { c.sstream.Close(); c.src.Close() }

// outer streams of the Flatten rig, keyed by their first inner source: Flatten only owns the inner
// streams that the outer stream has actually handed out.
var outers sync.Map

// peekDriver consumes a Peekable with a Peek before every Next (and checks that they agree).
type peekDriver struct{ p stream.Peekable[int] }

func (d peekDriver) Next(ctx context.Context) (int, error) {
	v, err := d.p.Peek(ctx)
	if err != nil {
		return 0, err
	}
	w, err := d.p.Next(ctx)
	if err != nil {
		return 0, err
	}
	if v != w {
		return 0, fmt.Errorf("Peek returned %d but the next Next returned %d", v, w)
	}
	return w, nil
}
func (d peekDriver) Close() { d.p.Close() }

// runsCollector turns a stream of runs into a stream of collected runs, draining each inner stream.
// A failure inside an inner stream is retried by the caller by calling Next again.
type runsCollector struct {
	s stream.Stream[stream.Stream[int]]
}

type runsState struct {
	inner stream.Stream[int]
	acc   []int
}

var runsStates sync.Map // runsCollector is a value type; keep the cursor per underlying stream

func (r runsCollector) Next(ctx context.Context) ([]int, error) {
	stAny, _ := runsStates.LoadOrStore(r.s, &runsState{})
	st := stAny.(*runsState)
	if st.inner == nil {
		in, err := r.s.Next(ctx)
		if err != nil {
			return nil, err
		}
		st.inner, st.acc = in, nil
	}
	for {
		v, err := st.inner.Next(ctx)
		if err == stream.End {
			out := st.acc
			st.inner, st.acc = nil, nil
			return out, nil
		} else if err != nil {
			return nil, err
		}
		st.acc = append(st.acc, v)
	}
}
func (r runsCollector) Close() { r.s.Close(); runsStates.Delete(r.s) }

// runsFirst yields the first item of every run and leaves the rest of the inner stream undrained.
type runsFirst struct {
	s stream.Stream[stream.Stream[int]]
}

func (r runsFirst) Next(ctx context.Context) (int, error) {
	stAny, _ := runsStates.LoadOrStore(r.s, &runsState{})
	st := stAny.(*runsState)
	if st.inner == nil {
		in, err := r.s.Next(ctx)
		if err != nil {
			return 0, err
		}
		st.inner = in
	}
	v, err := st.inner.Next(ctx)
	if err != nil {
		return 0, err // (a run is never empty, so End here is reported as it is: a wrong output)
	}
	st.inner = nil
	return v, nil
}
func (r runsFirst) Close() { r.s.Close(); runsStates.Delete(r.s) }

// ------------------------------------------------------------------------------------------------

// flipCtx is a context that is live for its first `after` Err() calls and cancelled from then on: it
// expires in the MIDDLE of a Next call of a combinator that pulls several source items per call.
type flipCtx struct {
	context.Context
	after int
	calls int
}

func (f *flipCtx) Err() error {
	f.calls++
	if f.calls > f.after {
		return context.Canceled
	}
	return nil
}

type fault struct {
	Kind string `json:"kind"` // "perm", "transient" (source src at position pos), "ctx" (consumer call pos), "cb" (callback invocation pos)
	Src  int    `json:"src"`
	Pos  int    `json:"pos"`
}

type plan struct {
	Rig     string   `json:"rig"`
	Inputs  [][]int  `json:"inputs"`
	Faults  []fault  `json:"faults"`
	Abandon int      `json:"abandon_after"` // -1: run to the end
	Pipe    []string `json:"pipeline,omitempty"`
}

type outcome struct {
	outs     []string
	end      error // error that ended the run (End, terminal error); nil when abandoned
	calls    int
	srcs     []*sx.Src
	cbFailed bool
	injected int // scripted source errors actually returned
	permHit  int // ... of which the permanent one
	result   string
	hang     bool
	foreign  string
}

func mkSrcs(inputs [][]int, faults []fault) []*sx.Src {
	srcs := make([]*sx.Src, len(inputs))
	for i, in := range inputs {
		s := &sx.Src{Name: fmt.Sprintf("src%d", i)}
		var perm = -1
		permErr := errPerm
		trans := map[int]int{}
		transW := map[int]int{}
		for _, f := range faults {
			if f.Src != i {
				continue
			}
			if e, ok := permErrs[f.Kind]; ok {
				perm = f.Pos
				permErr = e
			}
			if f.Kind == "transient" {
				trans[f.Pos]++
			}
			if f.Kind == "transientW" {
				transW[f.Pos]++
			}
		}
		for j := 0; j <= len(in); j++ {
			for k := 0; k < trans[j]; k++ {
				s.Steps = append(s.Steps, sx.Step{Err: errTransient})
			}
			for k := 0; k < transW[j]; k++ {
				s.Steps = append(s.Steps, sx.Step{Err: errTransientW})
			}
			if j == perm {
				s.Final = permErr
				break
			}
			if j < len(in) {
				s.Steps = append(s.Steps, sx.Step{Val: in[j]})
			}
		}
		srcs[i] = s
	}
	return srcs
}

func run(r rig, p plan) outcome {
	srcs := mkSrcs(p.Inputs, p.Faults)
	c := &cb{failAt: -1, onceAt: -1}
	expired := map[int]bool{}
	midCall := map[int]int{}
	for _, f := range p.Faults {
		if f.Kind == "ctxMid" {
			midCall[f.Pos] = f.Src // Src reused: number of source pulls after which the context ends
		}
		if f.Kind == "cb" {
			c.failAt = f.Pos
		}
		if f.Kind == "cbOnce" {
			c.onceAt = f.Pos
		}
		if f.Kind == "ctx" {
			expired[f.Pos] = true
		}
	}
	dead, cancel := context.WithCancel(context.Background())
	cancel()
	o := outcome{srcs: srcs}
	if r.reduce != nil {
		ctx := context.Background()
		if expired[0] {
			ctx = dead
		}
		o.result, o.end = r.reduce(ctx, srcs, c)
		o.cbFailed = c.failed
		for _, s := range srcs {
			o.injected += s.ErrsReturned
			o.permHit += s.FinalReturned
		}
		return o
	}
	s := r.build(srcs, c)
	callLimit := 64
	for _, in := range p.Inputs {
		callLimit += 4 * len(in)
	}
	for {
		if p.Abandon >= 0 && len(o.outs) >= p.Abandon {
			break
		}
		ctx := context.Background()
		if expired[o.calls] {
			ctx = dead
		}
		if k, ok := midCall[o.calls]; ok {
			ctx = &flipCtx{Context: context.Background(), after: k}
		}
		v, err := s.Next(ctx)
		o.calls++
		if err == nil {
			o.outs = append(o.outs, v)
		} else if err == stream.End || isPermErr(err) || err == errFn {
			o.end = err
			break
		} else if err == context.Canceled || err == errTransient || err == errTransientW || err == errFnOnce {
			// failed while waiting: costs nothing, ask again
		} else {
			o.foreign = err.Error()
			o.end = err
			break
		}
		if o.calls > callLimit {
			o.hang = true
			break
		}
	}
	s.Close()
	o.cbFailed = c.failed
	for _, x := range srcs {
		o.injected += x.ErrsReturned
		o.permHit += x.FinalReturned
	}
	return o
}

func truncate(inputs [][]int, faults []fault) [][]int {
	out := make([][]int, len(inputs))
	for i := range inputs {
		out[i] = inputs[i]
	}
	for _, f := range faults {
		if _, ok := permErrs[f.Kind]; ok {
			out[f.Src] = inputs[f.Src][:f.Pos]
			// sources after a permanently failing one are never reached by Join/Flatten
			for j := f.Src + 1; j < len(out); j++ {
				out[j] = nil
			}
		}
	}
	return out
}

func isPrefix(a, b []string) bool {
	if len(a) > len(b) {
		return false
	}
	for i := range a {
		if a[i] != b[i] {
			return false
		}
	}
	return true
}

type viol struct {
	sig, detail string
}

// check evaluates C08 or C09 for one plan.
func check(prop string, r rig, p plan) *viol {
	o := run(r, p)
	ref := run(r, plan{Rig: p.Rig, Inputs: p.Inputs, Abandon: -1})
	terminal := false
	var want error
	for _, f := range p.Faults {
		if e, ok := permErrs[f.Kind]; ok {
			terminal, want = true, e
		}
		if f.Kind == "cb" {
			terminal, want = true, errFn
		}
	}
	desc := fmt.Sprintf("%s on %v with faults %+v (abandon after %d)", p.Rig, p.Inputs, p.Faults, p.Abandon)
	if prop == "C09" {
		for i, s := range o.srcs {
			must := true
			if ou, ok := outers.Load(o.srcs[0]); ok {
				outer := ou.(*sx.SrcOf[stream.Stream[int]])
				must = i < outer.HandedOut()
				if i == len(o.srcs)-1 {
					outers.Delete(o.srcs[0])
					if outer.Closes != 1 {
						return &viol{"c09/source/outer-not-closed-once/" + r.name, fmt.Sprintf("%s: the outer stream was closed %d times", desc, outer.Closes)}
					}
				}
			}
			if sig, d := s.Check(must); sig != "" {
				// Join/Flatten legitimately never obtain streams after a terminal failure... they are
				// still given them (Join) and have to close them.
				return &viol{"c09/" + sig + "/" + r.name, desc + ": " + d}
			}
		}
		return nil
	}
	if o.hang {
		return &viol{"c08/does-not-terminate/" + r.name, desc + ": more than 64 Next calls without reaching the end"}
	}
	if o.foreign != "" {
		return &viol{"c08/foreign-error/" + r.name, desc + ": reported " + o.foreign + ", which nobody injected"}
	}
	if r.reduce != nil {
		// for a reducer every fault ends the reduction: it returns the first injected error itself
		ctx0 := false
		for _, f := range p.Faults {
			if f.Kind == "ctx" && f.Pos == 0 {
				ctx0 = true
			}
		}
		anyFault := o.injected > 0 || o.cbFailed || ctx0
		if !anyFault {
			if o.end != nil || o.result != ref.result {
				return &viol{"c08/reducer-result/" + r.name, fmt.Sprintf("%s: returned (%s,%v), fault-free result is %s", desc, o.result, o.end, ref.result)}
			}
			return nil
		}
		if o.end == nil {
			// the fault may not have been reached (e.g. One stops after two items)
			if o.injected == 0 && !o.cbFailed && o.result == ref.result {
				return nil
			}
			if ctx0 && o.result == ref.result {
				return nil // an expired context only matters if the reducer has to wait
			}
			return &viol{"c08/reducer-swallowed-error/" + r.name, fmt.Sprintf("%s: returned (%s,nil) although a fault was injected", desc, o.result)}
		}
		if !isPermErr(o.end) && o.end != errTransient && o.end != errTransientW && o.end != errFn && o.end != context.Canceled {
			return &viol{"c08/reducer-foreign-error/" + r.name, fmt.Sprintf("%s: returned error %v", desc, o.end)}
		}
		return nil
	}
	if terminal {
		reached := (isPermErr(want) && o.permHit > 0) || (want == errFn && o.cbFailed)
		var bound []string
		if isPermErr(want) {
			bound = run(r, plan{Rig: p.Rig, Inputs: truncate(p.Inputs, p.Faults), Abandon: -1}).outs
		} else {
			bound = ref.outs
		}
		if reached {
			if o.end != want {
				return &viol{"c08/error-not-reported/" + r.name, fmt.Sprintf("%s: the stream ended with %v after %v although %v was raised", desc, o.end, o.outs, want)}
			}
			if !isPrefix(o.outs, bound) {
				return &viol{"c08/wrong-output-before-error/" + r.name, fmt.Sprintf("%s: delivered %v before the error; correct outputs for the items before the fault are %v", desc, o.outs, bound)}
			}
			return nil
		}
		// the combinator finished without ever meeting the fault
		if o.end != stream.End || !reflect.DeepEqual(o.outs, ref.outs) {
			return &viol{"c08/wrong-output/" + r.name, fmt.Sprintf("%s: delivered %v end=%v, fault-free reference %v", desc, o.outs, o.end, ref.outs)}
		}
		return nil
	}
	// only faults that cost nothing: the sequence continues exactly where it left off
	if o.end != stream.End || !reflect.DeepEqual(o.outs, ref.outs) {
		sig := "c08/lost-or-duplicated-after-retry/"
		if len(p.Faults) == 0 {
			sig = "c08/nondeterministic-reference/"
		}
		return &viol{sig + r.name, fmt.Sprintf("%s: delivered %v end=%v, fault-free reference %v", desc, o.outs, o.end, ref.outs)}
	}
	return nil
}

func inputs(maxLen int) [][]int {
	out := [][]int{{}}
	prev := [][]int{{}}
	for l := 1; l <= maxLen; l++ {
		var cur [][]int
		for _, p := range prev {
			for _, v := range []int{0, 1, 2, 3} { // 0 = the element type's zero value
				if v == 3 && l < 2 {
					continue
				}
				cur = append(cur, append(append([]int{}, p...), v))
			}
		}
		out = append(out, cur...)
		prev = cur
	}
	return out
}

func faultPlans(r rig, ins [][]int, two bool) [][]fault {
	var singles []fault
	for si, in := range ins {
		if r.noSrcFaults {
			break
		}
		for p := 0; p <= len(in); p++ {
			singles = append(singles, fault{"perm", si, p}, fault{"transient", si, p}, fault{"permW", si, p}, fault{"transientW", si, p}, fault{"permEOF", si, p}, fault{"permDL", si, p})
		}
	}
	total := 0
	for _, in := range ins {
		total += len(in)
	}
	for j := 0; j <= total+1; j++ {
		singles = append(singles, fault{"ctx", 0, j})
		if r.reduce == nil && j <= total {
			singles = append(singles, fault{"ctxMid", 1, j}, fault{"ctxMid", 2, j})
		}
	}
	if r.hasCB {
		for q := 0; q < total; q++ {
			singles = append(singles, fault{"cb", 0, q})
			if r.cbRetry {
				singles = append(singles, fault{"cbOnce", 0, q})
			}
		}
	}
	plans := [][]fault{nil}
	for _, f := range singles {
		plans = append(plans, []fault{f})
	}
	if two {
		for i, a := range singles {
			for _, b := range singles[i:] {
				term := func(k string) bool { _, ok := permErrs[k]; return ok || k == "cb" }
				if a.Kind == "transientW" || b.Kind == "transientW" || a.Kind == "permW" || a.Kind == "permEOF" || a.Kind == "permDL" || b.Kind == "permEOF" || b.Kind == "permDL" {
					continue // the wrapped-end variants are explored as single faults and as the second of a pair only
				}
				if term(a.Kind) && term(b.Kind) || (a.Kind == "cbOnce" && b.Kind == "cbOnce") || (a.Kind == "cb" && b.Kind == "cbOnce") || (a.Kind == "cbOnce" && b.Kind == "cb") {
					continue
				}
				plans = append(plans, []fault{a, b})
			}
		}
	}
	return plans
}

// longPass: inputs far longer than the exhaustive part reaches (runs of 70 equal items, 80 alternating
// ones) under every single fault at every position, and rigs with 12 inner streams. Linear in the input
// length per plan.
func longPass(prop string, rs []rig, runv *vx.Run) int64 {
	byName := map[string]rig{}
	for _, r := range rs {
		byName[r.name] = r
	}
	var l1, l2 []int
	for i := 0; i < 70; i++ {
		l1 = append(l1, 1)
	}
	l1 = append(l1, 2, 3, 2, 2, 1) // (no item after the long run is repeated at once: losing one must show)
	for i := 0; i < 40; i++ {
		l2 = append(l2, 1, 2)
	}
	type job struct {
		r rig
		p plan
	}
	var jobs []job
	for _, name := range []string{"Compact", "CompactFunc", "Filter", "While", "Map", "Chunk(3)", "Runs(first of each)", "Runs(collect each)", "Flatten.Runs", "FlattenSlices.Chunk(2)", "WithPeek", "First(9)"} {
		r, ok := byName[name]
		if !ok {
			continue
		}
		for _, in := range [][]int{l1, l2} {
			n := len(in)
			var fs [][]fault
			fs = append(fs, nil)
			for pos := 0; pos <= n; pos++ {
				fs = append(fs, []fault{{"transient", 0, pos}})
				if pos <= 2 || pos >= n-2 || pos%16 <= 1 {
					fs = append(fs, []fault{{"perm", 0, pos}}, []fault{{"permEOF", 0, pos}})
				}
			}
			for call := 0; call <= 2; call++ {
				for after := 0; after <= 2*n+4; after++ { // a combinator may consult the context itself between pulls
					fs = append(fs, []fault{{"ctxMid", after, call}})
				}
			}
			if r.hasCB {
				for q := 0; q < n; q += 7 {
					fs = append(fs, []fault{{"cb", 0, q}})
				}
			}
			for _, f := range fs {
				abandons := []int{-1}
				if prop == "C09" {
					abandons = []int{-1, 0, 1, 2}
				}
				for _, ab := range abandons {
					jobs = append(jobs, job{r, plan{Rig: r.name, Inputs: [][]int{in}, Faults: f, Abandon: ab}})
				}
			}
		}
	}
	for _, name := range []string{"Flatten(12 inner)", "Join(12 streams)"} {
		r, ok := byName[name]
		if !ok {
			continue
		}
		var sets [][][]int
		var singles, mixed, empties [][]int
		for i := 0; i < 12; i++ {
			singles = append(singles, []int{i + 1})
			empties = append(empties, nil)
			if i%3 == 1 {
				mixed = append(mixed, nil)
			} else {
				mixed = append(mixed, []int{i + 1, i + 1})
			}
		}
		sets = append(sets, singles, mixed, empties)
		for _, set := range sets {
			var fs [][]fault
			fs = append(fs, nil)
			for si := 0; si < 12; si++ {
				for pos := 0; pos <= len(set[si]); pos++ {
					fs = append(fs, []fault{{"perm", si, pos}}, []fault{{"transient", si, pos}})
				}
			}
			for call := 0; call <= 13; call++ {
				fs = append(fs, []fault{{"ctx", 0, call}})
			}
			for _, f := range fs {
				abandons := []int{-1}
				if prop == "C09" {
					for k := 0; k <= 13; k++ {
						abandons = append(abandons, k)
					}
				}
				for _, ab := range abandons {
					jobs = append(jobs, job{r, plan{Rig: r.name, Inputs: set, Faults: f, Abandon: ab}})
				}
			}
		}
	}
	vx.Parallel(len(jobs), func(i int) {
		if v := check(prop, jobs[i].r, jobs[i].p); v != nil {
			runv.Violate(vx.Violation{Signature: v.sig, Detail: v.detail, Replay: jobs[i].p})
		}
	})
	return int64(len(jobs))
}

func main() {
	prop := os.Args[1]
	os.Args = append(os.Args[:1], os.Args[2:]...)
	runv := vx.Start(prop)
	_ = rand.Int
	_ = xrand.Sample
	rs := rigs()
	if prop == "C09" {
		for _, k := range []int{-1, 0, 1, 2, 5} {
			k := k
			rs = append(rs, rig{name: fmt.Sprintf("xrand.SampleStream(k=%d)", k), nsrc: 1, reduce: func(ctx context.Context, s []*sx.Src, c *cb) (res string, err error) {
				defer func() {
					if recover() != nil { // a panic for k < 0 is not this property's subject; ownership still is
						res, err = "", errors.New("panicked")
					}
				}()
				_, err = xrand.RSampleStream[int](ctx, rand.New(rand.NewSource(1)), s[0], k)
				return "", err
			}})
		}
	}
	// pipelines of two int->int combinators
	var intRigs []rig
	for _, r := range rs {
		if r.intInt != nil {
			intRigs = append(intRigs, r)
		}
	}
	for _, a := range intRigs {
		for _, b := range intRigs {
			a, b := a, b
			rs = append(rs, rig{name: b.name + "∘" + a.name, nsrc: 1, hasCB: a.hasCB || b.hasCB, cbRetry: (a.cbRetry && a.hasCB) || (b.cbRetry && !a.hasCB), build: func(s []*sx.Src, c *cb) sstream {
				c2 := &cb{failAt: -1, onceAt: -1}
				if !a.hasCB {
					c2, c = c, c2 // the scripted callback failure goes to whichever stage has a callback
				}
				return erase(b.intInt(a.intInt(s[0], c), c2))
			}})
		}
	}
	if runv.Replay != "" {
		var p plan
		runv.LoadReplay(&p)
		for _, r := range rs {
			if r.name == p.Rig {
				if v := check(prop, r, p); v != nil {
					runv.Violate(vx.Violation{Signature: v.sig, Detail: v.detail, Replay: p})
				}
			}
		}
		runv.Finish()
	}
	maxLen := 3
	if !runv.Quick() {
		maxLen = 4
	}
	ins := inputs(maxLen)
	var cases, nontrivial int64
	var mu sync.Mutex
	perRig := map[string]int64{}
	vx.Parallel(len(rs), func(ri int) {
		r := rs[ri]
		var local int64
		if r.nsrc > 2 {
			return // long-input pass only
		}
		pipeline := len(r.name) > 0 && containsRune(r.name, '∘')
		for _, in := range ins {
			var inputSets [][][]int
			if r.nsrc == 1 {
				inputSets = [][][]int{{in}}
			} else {
				if len(in) > 2 {
					continue
				}
				for _, in2 := range ins {
					if len(in2) <= 2 {
						inputSets = append(inputSets, [][]int{in, in2})
					}
				}
			}
			if pipeline && len(in) > 3 {
				continue
			}
			for _, set := range inputSets {
				for _, fs := range faultPlans(r, set, !pipeline || len(in) <= 2) {
					abandons := []int{-1}
					if prop == "C09" && r.reduce == nil {
						for k := 0; k <= len(in)+1; k++ {
							abandons = append(abandons, k)
						}
					}
					for _, ab := range abandons {
						p := plan{Rig: r.name, Inputs: set, Faults: fs, Abandon: ab}
						local++
						if v := check(prop, r, p); v != nil {
							runv.Violate(vx.Violation{Signature: v.sig, Detail: v.detail, Replay: p})
						}
					}
				}
			}
		}
		atomic.AddInt64(&cases, local)
		mu.Lock()
		perRig[r.name] = local
		if len(perRig) <= 6 {
			runv.Sample(map[string]any{"rig": r.name, "inputs": [][]int{{1, 2, 1}}, "faults": []fault{{"transient", 0, 1}, {"ctx", 0, 2}}})
		}
		mu.Unlock()
	})
	_ = nontrivial
	longCases := longPass(prop, rs, runv)
	cases += longCases
	runv.Set("long_input_cases", longCases)
	runv.AddCounts(cases, cases, cases)
	runv.Set("rigs", len(rs))
	runv.Set("cases_per_rig_sample", map[string]int64{"Chunk(2)": perRig["Chunk(2)"], "Flatten(a,b)": perRig["Flatten(a,b)"], "While∘Map": perRig["While∘Map"]})
	runv.Set("input_length_bound", maxLen)
	runv.Set("rule", "every rig (combinator, reducer, pipeline of two) x every input over {1,2,3} up to the length bound x every fault plan with 0, 1 or 2 faults (permanent source error / transient source error / expired per-call context / callback error at every position) [x every abandonment point for C09]; states = cases executed on the real code, each compared with the fault-free run of the same rig")
	runv.Assume("the fault-free behaviour of each combinator is the reference here; that it is the documented function is C07's subject")
	runv.Assume("sources honour the contract: they return the context's error when called with an expired context and keep their position after a transient error")
	runv.Finish()
}

func containsRune(s string, r rune) bool {
	for _, x := range s {
		if x == r {
			return true
		}
	}
	return false
}
