#!/bin/bash
# C08 = sequential part (engine E1: fault enumeration over all combinators) + concurrent part (engine E2).
set -u
cd "$VERIF_ROOT"
B=.build/c08; mkdir -p $B bin
go build -o bin/vxmerge ./cmd/vxmerge || exit 2
go build -tags verif -o bin/c08seq ./props/c08 2> $B/build.log || { cat $B/build.log >&2; echo "INFRASTRUCTURE ERROR: build failed" >&2; exit 2; }
if [ "${1:-}" = "--replay" ]; then
  if jq -e '.replay.rig' "$2" >/dev/null 2>&1; then exec bin/c08seq C08 --replay "$2"; fi
  exec props/mcrun.sh C08 --replay "$2"
fi
props/mcrun.sh C08 --build || exit 2
[ "${1:-}" = "--build" ] && exit 0
tier="${1:-quick}"
rm -f $B/seq.json $B/mc.json
VERIF_PART=$PWD/$B/seq.json VERIF_PART_NAME=sequential bin/c08seq C08 $tier || { echo "INFRASTRUCTURE ERROR: sequential part failed" >&2; exit 2; }
VERIF_PART=$PWD/$B/mc.json VERIF_PART_NAME=concurrent bin/c08_mc $tier || { echo "INFRASTRUCTURE ERROR: concurrent part failed" >&2; exit 2; }
exec bin/vxmerge C08 $tier $B/seq.json $B/mc.json
