// Package scn selects, for C08, the goroutine-backed stream scenarios (Batch, Merge, Pipe,
// MapStream) in which a source or callback fails or a per-call context expires. The bodies live with
// the properties that own those components; their oracles include C08's clauses (correct prefix, the
// source's own error reported after the preceding items, a Next that gives up costs nothing).
package scn

import (
	"strings"

	c10 "verif/props/c10/scn"
	c11 "verif/props/c11/scn"
	c12 "verif/props/c12/scn"
	c14 "verif/props/c14/scn"
)

type Scenario struct {
	Name      string
	Body      func()
	TimerMode int
	Procs     int
}

func All() []Scenario {
	var out []Scenario
	for _, p := range c11.All() {
		n := p.Name()
		if strings.Contains(n, "E/") || strings.Contains(n, "timeouts=[5ms") || strings.Contains(n, "timeouts=[1ms") {
			out = append(out, Scenario{Name: n, Body: p.Body(), TimerMode: p.Mode})
		}
	}
	for _, s := range c12.All() {
		if strings.HasPrefix(s.Name, "streamMerge") && (strings.Contains(s.Name, "E") || strings.Contains(s.Name, "per-call-contexts") || strings.Contains(s.Name, "first-context-expires")) {
			out = append(out, Scenario{Name: s.Name, Body: s.Body})
		}
	}
	for _, s := range c14.All() {
		if strings.HasPrefix(s.Name, "mapStream") && (strings.Contains(s.Name, "E/") || !strings.Contains(s.Name, "failAt=-1") || strings.Contains(s.Name, "expire=true")) {
			out = append(out, Scenario{Name: s.Name, Body: s.Body, Procs: s.Procs})
		}
	}
	for _, p := range c10.All(true) {
		if p.Cancel != "" || p.CloseErr {
			if p.Buf == 1 {
				out = append(out, Scenario{Name: p.Name(), Body: p.Body()})
			}
		}
	}
	return out
}
