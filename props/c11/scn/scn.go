// Package scn holds the C11 scenario bodies (stream.Batch / BatchFunc) on the virtual clock.
package scn

import (
	"context"
	"fmt"
	"time"

	"github.com/bradenaw/juniper/stream"

	"verif/mc/hx"
	"verif/props/sx"
)

type Scenario struct {
	Name      string
	TimerMode int
	Body      func()
}

const ms = time.Millisecond
const maxWait = 10 * ms

// Params: consumer = list of per-call context timeouts (0 = live context); after the list it keeps
// calling with a live context until End/err (+2 more calls) unless closeAfter >= 0 (close after
// that many batches) or stopAfterList.
type Params struct {
	Script     []sx.Step
	Size       int
	Func       bool // BatchFunc with a full() that has latency
	Timeouts   []time.Duration
	CloseAfter int // -1: read to the end
	// ExternalClose: a separate thread calls Close at a chosen instant while the consumer does
	// nothing (the producer is ahead of the consumer).
	ExternalClose bool
	Mode          int
	// Pauses[i]: (virtual) time the consumer lets pass before its i-th call (a consumer slower than
	// the source: items arrive before anybody asks for them).
	Pauses []time.Duration
	// SumFull: BatchFunc with a full() that looks at the CONTENT: a batch is full when the sum of
	// its items is a multiple of SumFull (which the empty batch's sum is, too)
	SumFull int
	// MaxWait overrides the 10 ms default (0 = default)
	MaxWait time.Duration
	// StopAfterList: once the last call of the Timeouts list has given up, the consumer closes
	StopAfterList bool
}

func (p Params) Name() string {
	s := ""
	for _, st := range p.Script {
		switch {
		case st.Err == context.Canceled:
			s += "cE" // the source's own error happens to be context.Canceled
		case st.Err != nil:
			s += "E"
		case st.Block:
			s += "B"
		case st.Delay > 0:
			s += fmt.Sprintf("v+%d", st.Delay/ms)
		default:
			s += "v"
		}
	}
	n := fmt.Sprintf("batch/src=%s/size=%d/func=%v/timeouts=%v/pauses=%v/closeAfter=%d/extClose=%v/timerMode=%d", s, p.Size, p.Func, p.Timeouts, p.Pauses, p.CloseAfter, p.ExternalClose, p.Mode)
	if p.SumFull > 0 {
		n += fmt.Sprintf("/full=sum-multiple-of-%d", p.SumFull)
	}
	if p.MaxWait > 0 {
		n += fmt.Sprintf("/maxWait=%v", p.MaxWait)
	}
	return n
}

func (p Params) Body() func() {
	return func() {
		src := &sx.Src{Name: "src", Steps: p.Script}
		var items []int
		var srcErr error
		for _, st := range p.Script {
			if st.Err != nil {
				srcErr = st.Err
				src.Final = st.Err
				break
			}
			if !st.Block {
				items = append(items, st.Val)
			}
		}
		maxWait := maxWait
		if p.MaxWait > 0 {
			maxWait = p.MaxWait
		}
		var b stream.Stream[[]int]
		if p.SumFull > 0 {
			b = stream.BatchFunc[int](src, maxWait, func(batch []int) bool {
				sum := 0
				for _, x := range batch {
					sum += x
				}
				return sum%p.SumFull == 0
			})
		} else if p.Func {
			b = stream.BatchFunc[int](src, maxWait, func(batch []int) bool { hx.Yield(); return len(batch) >= p.Size })
		} else {
			b = stream.Batch[int](src, maxWait, p.Size)
		}
		var got []int
		delivered := 0
		// batches stay what they were when handed out (a consumer may keep them)
		var kept, keptCopy [][]int
		checkKept := func() {
			for i := range kept {
				for j := range kept[i] {
					if kept[i][j] != keptCopy[i][j] {
						hx.Fail("batch-overwritten", "batch #%d was %v when handed out and now reads %v", i, keptCopy[i], kept[i])
					}
				}
			}
		}
		check := func(batch []int) {
			kept = append(kept, batch)
			keptCopy = append(keptCopy, append([]int(nil), batch...))
			if len(batch) == 0 {
				hx.Fail("empty-batch", "an empty batch was delivered")
			}
			if len(batch) > p.Size && p.SumFull == 0 {
				hx.Fail("batch-too-large", "batch %v holds more than batchSize=%d items", batch, p.Size)
			}
			// an underfilled batch handed out before the source has ended: its oldest item has
			// waited at least maxWait
			hx.Atomically(func() {
				under := len(batch) < p.Size
				if p.SumFull > 0 {
					sum := 0
					for _, x := range batch {
						sum += x
					}
					under = sum%p.SumFull != 0
				}
				if under && src.EndedAt < 0 {
					oldest := src.HandedAt[delivered]
					// (a virtual clock that has run into the end of its range has saturated: elapsed
					// times can no longer be computed from it)
					if hx.Now() != time.Duration(1<<63-1) && hx.Now()-oldest < maxWait {
						hx.Fail("underfilled-batch-too-early", "batch %v (batchSize %d) was handed out %v after its oldest item left the source, before maxWait=%v and before the source ended", batch, p.Size, hx.Now()-oldest, maxWait)
					}
				}
			})
			for _, v := range batch {
				if delivered >= len(items) || items[delivered] != v {
					hx.Fail("lost-duplicated-or-reordered", "batches so far %v then %v; the source yields %v", got, batch, items)
				}
				got = append(got, v)
				delivered++
			}
		}
		if p.ExternalClose {
			hx.Sleep(time.Duration(hx.Choose("close-at", 3)) * maxWait / 2)
			b.Close()
		} else {
			nBatches := 0
			var end error
			timeouts := append([]time.Duration{}, p.Timeouts...)
			extra := 0
			// A batch that is held back while this consumer waits with a live context (source blocked,
			// no timer armed) leaves the consumer blocked with nothing able to run: the explorer
			// reports that as a deadlock.
			call := 0
			blocks := len(p.Script) > 0 && p.Script[len(p.Script)-1].Block
			for p.CloseAfter < 0 || nBatches < p.CloseAfter {
				if blocks && delivered == len(items) {
					break // everything the (now silent) source will ever yield has been delivered
				}
				if call < len(p.Pauses) && p.Pauses[call] > 0 {
					hx.Sleep(p.Pauses[call])
				}
				call++
				ctx := context.Background()
				cancel := func() {}
				live := true
				if len(timeouts) > 0 {
					if timeouts[0] > 0 {
						ctx, cancel = context.WithTimeout(ctx, timeouts[0])
						live = false
					}
					timeouts = timeouts[1:]
				}
				batch, err := b.Next(ctx)
				cancel()
				if err != nil && !live && err == context.DeadlineExceeded {
					if p.StopAfterList && len(timeouts) == 0 {
						break
					}
					continue // a Next that gives up costs nothing: ask again
				}
				if err != nil {
					if end == nil {
						end = err
						if delivered != len(items) {
							hx.Fail("end-before-all-items", "Next reported %v after %v; the source yields %v first", err, got, items)
						}
						want := error(stream.End)
						if srcErr != nil {
							want = srcErr
						}
						if err != want {
							hx.Fail("wrong-end", "Next reported %v, the source ends with %v", err, want)
						}
					} else if err != end {
						hx.Fail("end-not-repeated", "Next reported %v and then %v", end, err)
					}
					extra++
					if extra > 2 {
						break
					}
					continue
				}
				if end != nil {
					hx.Fail("batch-after-end", "a batch %v was delivered after %v had been reported", batch, end)
				}
				check(batch)
				nBatches++
			}
			b.Close()
		}
		checkKept()
		// Close has returned: background work stopped, source closed exactly once
		hx.Atomically(func() {
			if src.Closes == 0 {
				hx.Fail("source/not-closed-when-Close-returned", "Close of the batch stream has returned but the source stream has not been closed yet")
			}
		})
		hx.QuiesceNow()
		live := hx.Live()
		n := 0
		for _, l := range live {
			if !contains(l, "quiesce") && !contains(l, "sleeping") {
				n++
			}
		}
		if n > 0 {
			hx.Fail("goroutine-left-after-Close", "after Close returned these threads are still alive: %v", live)
		}
		if sig, d := src.Check(true); sig != "" {
			hx.Fail(sig, "%s", d)
		}
		hx.Outcome("got=%v", got)
	}
}

func contains(s, sub string) bool {
	for i := 0; i+len(sub) <= len(s); i++ {
		if s[i:i+len(sub)] == sub {
			return true
		}
	}
	return false
}

func v(i int) sx.Step                   { return sx.Step{Val: i} }
func vd(i int, d time.Duration) sx.Step { return sx.Step{Val: i, Delay: d} }

func All() []Params {
	e := sx.Step{Err: sx.ErrSrc}
	blk := sx.Step{Block: true}
	return []Params{
		{Script: nil, Size: 2, CloseAfter: -1},
		{Script: []sx.Step{v(0), v(1), v(2)}, Size: 2, CloseAfter: -1},
		{Script: []sx.Step{v(0), v(1), v(2)}, Size: 1, CloseAfter: -1, Mode: 1},
		{Script: []sx.Step{v(0), v(1), v(2)}, Size: 2, Func: true, CloseAfter: -1},
		{Script: []sx.Step{v(0), vd(1, 20*ms)}, Size: 3, CloseAfter: -1},
		{Script: []sx.Step{v(0), vd(1, 4*ms), vd(2, 20*ms)}, Size: 3, CloseAfter: -1, Mode: 1},
		{Script: []sx.Step{v(0), v(1), blk}, Size: 3, CloseAfter: 1},
		{Script: []sx.Step{v(0), blk}, Size: 2, Timeouts: []time.Duration{5 * ms}, CloseAfter: 1},
		{Script: []sx.Step{vd(0, 3*ms), blk}, Size: 2, Timeouts: []time.Duration{1 * ms, 0}, CloseAfter: 1},
		{Script: []sx.Step{v(0), blk}, Size: 2, Timeouts: []time.Duration{5 * ms, 2 * ms}, CloseAfter: 1, Mode: 1},
		{Script: []sx.Step{vd(0, 12*ms), vd(1, 12*ms), blk}, Size: 2, Timeouts: []time.Duration{5 * ms}, CloseAfter: 1},
		{Script: []sx.Step{v(0), e}, Size: 2, CloseAfter: -1},
		{Script: []sx.Step{v(0), v(1), e}, Size: 2, CloseAfter: -1},
		{Script: []sx.Step{e}, Size: 1, CloseAfter: -1},
		{Script: []sx.Step{v(0), vd(1, 15*ms), e}, Size: 3, CloseAfter: -1},
		// a full() that is true for the empty batch: still no empty batch is ever handed out
		{Script: []sx.Step{v(1), v(1), v(2), blk}, Size: 9, SumFull: 2, CloseAfter: 1},
		{Script: []sx.Step{v(1), vd(1, 15*ms), blk}, Size: 9, SumFull: 2, Timeouts: []time.Duration{5 * ms, 0}, CloseAfter: 2},
		// a Next that gives up, one that is served at once by a full batch, then one for which only an
		// underfilled batch is pending: it is handed over after maxWait, not held back
		{Script: []sx.Step{vd(0, 12*ms), v(1), v(2), blk}, Size: 2, Timeouts: []time.Duration{5 * ms, 0, 0}, CloseAfter: 2},
		{Script: []sx.Step{vd(0, 12*ms), v(1), vd(2, 1*ms), blk}, Size: 2, Timeouts: []time.Duration{5 * ms, 0, 0}, CloseAfter: 2, Mode: 1},
		// the largest maxWait there is: an underfilled batch is still not handed out early
		// (the consumer is waiting when item 2 arrives and gives up 5 ms later: nothing may have been handed out)
		{Script: []sx.Step{v(0), v(1), vd(2, 3*ms), blk}, Size: 2, MaxWait: time.Duration(1<<63 - 1 - 300000), Timeouts: []time.Duration{0, 8 * ms}, StopAfterList: true, CloseAfter: -1},
		{Script: []sx.Step{vd(0, 3*ms), blk}, Size: 2, MaxWait: time.Duration(1<<63 - 1), Timeouts: []time.Duration{8 * ms}, StopAfterList: true, CloseAfter: -1, Mode: 1},
		// the source's own error is context.Canceled (not a cancellation of the library's making)
		{Script: []sx.Step{v(0), {Err: context.Canceled}}, Size: 2, CloseAfter: -1},
		// a full batch, then an underfilled one flushed by the timer, then more: batches handed out
		// earlier must not change (their backing arrays are the consumer's)
		{Script: []sx.Step{v(0), v(1), v(2), v(3), v(4), vd(5, 20*ms)}, Size: 4, CloseAfter: -1},
		{Script: []sx.Step{v(0), v(1), v(2), v(3)}, Size: 1, ExternalClose: true},
		{Script: []sx.Step{v(0), v(1), v(2)}, Size: 2, ExternalClose: true, Mode: 1},
		{Script: []sx.Step{v(0), blk}, Size: 2, ExternalClose: true},
		{Script: []sx.Step{v(0), v(1), v(2)}, Size: 2, CloseAfter: 1},
		{Script: []sx.Step{v(0), v(1), v(2)}, Size: 2, CloseAfter: 0},
		// a second, underfilled batch whose item arrives BEFORE the consumer asks again, the source
		// then silent: the consumer asks 5 ms / 15 ms / 35 ms after the item arrived
		{Script: []sx.Step{v(0), vd(1, 15*ms), blk}, Size: 3, Pauses: []time.Duration{0, 10 * ms}, CloseAfter: 2},
		{Script: []sx.Step{v(0), vd(1, 15*ms), blk}, Size: 3, Pauses: []time.Duration{0, 20 * ms}, CloseAfter: 2, Mode: 1},
		{Script: []sx.Step{v(0), vd(1, 15*ms), blk}, Size: 3, Pauses: []time.Duration{0, 40 * ms}, CloseAfter: 2},
		{Script: []sx.Step{v(0), v(1), vd(2, 3*ms), blk}, Size: 2, Pauses: []time.Duration{20 * ms, 5 * ms}, CloseAfter: 2},
	}
}
