#!/bin/bash
exec "$VERIF_ROOT/props/mcrun.sh" C11 "$@"
