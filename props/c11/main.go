//go:build mcbuild

// C11: stream.Batch / BatchFunc on the virtual clock. Engine E2.
package main

import (
	"time"

	"verif/mc"
	"verif/mc/mcx"
	"verif/props/c11/scn"
)

func main() {
	var scs []mcx.Scenario
	for _, p := range scn.All() {
		scs = append(scs, mcx.Scenario{Name: p.Name(), Body: p.Body(), Cfg: mc.Config{TimerMode: p.Mode}, Bound: 3, ThoroughBound: 4, SwitchBound: 3, Family: "batch", MaxTime: 2 * time.Minute, AllowDeadlock: false})
	}
	mcx.Main("C11", scs, []string{
		"time is the runtime's virtual clock; 'the oldest item has waited' is measured from the instant the source handed the item out",
		"held-back rule: in a state where nothing can run and no timer is pending, a consumer with a live context waiting in Next must not coexist with items that left the source and were never delivered",
		"both timer-channel semantics are explored",
	})
}
