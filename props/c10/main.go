//go:build mcbuild

// C10: stream.Pipe — FIFO per sender, nothing sent-before-close lost, no stuck call. Engine E2.
package main

import (
	"verif/mc/mcx"
	"verif/props/c10/scn"
)

func main() {
	var scs []mcx.Scenario
	for _, p := range scn.All(true) {
		b := 2
		if len(p.Senders) == 1 && p.Cancel == "" && p.Closer != "thread" {
			b = 3
		}
		sc := mcx.Scenario{Name: p.Name(), Body: p.Body(), Bound: b, ThoroughBound: b + 1, Family: "pipe"}
		if p.Buf >= 5 {
			sc.Bound, sc.ThoroughBound, sc.SwitchBound = 1, 2, 2
		}
		scs = append(scs, sc)
	}
	mcx.Main("C10", scs, []string{
		"'sent before the sender was closed' is read as: Send returned nil before Close was called",
		"stickiness of End/err is required from the first report made while no Send is in flight and none starts later",
	})
}
