// Package scn holds the C10 scenario bodies (stream.Pipe). Plain Go: the same source is compiled
// untransformed for the free-running side passes and transformed onto the mc runtime for the check.
package scn

import (
	"context"
	"errors"
	"fmt"
	"sync"

	"github.com/bradenaw/juniper/stream"

	"verif/mc/hx"
)

var errClose = errors.New("close-error")

type sendRec struct {
	val      int
	err      error
	ok       bool // TrySend's bool
	try      bool
	beginSeq int
	endSeq   int
}

type nextRec struct {
	val int
	err error
	seq int
}

type log struct {
	seq          int
	sends        []*sendRec
	nexts        []nextRec
	closeCallSeq int // 0 = never
	// event numbers at which the sender's Close, the receiver's Close and the cancellation of the
	// senders' context had RETURNED (0 = never)
	closeRetSeq, recvClosedRetSeq, sendCancelRetSeq int
	closeErr                                        error
	inflight                                        int
	sendsLeft                                       int
	recvClosed                                      int
}

func (l *log) tick() int { l.seq++; return l.seq }

// Params of a pipe scenario.
type Params struct {
	Buf      int
	Senders  [][]int // values each sender thread sends, in order
	Try      bool    // senders use TrySend
	CloseErr bool    // Close(errClose) instead of Close(nil)
	// Who closes the sender: "last" = the (single) sender thread after its sends, "thread" = a
	// separate thread at any time, "" = nobody.
	Closer string
	// Receiver: number of Next calls before it calls Close ( -1 = read until End/err plus two more).
	RecvThenClose int
	// A canceller thread cancels the context used by Sends ("send"), by Nexts ("next") or none.
	Cancel string
}

func (p Params) Name() string {
	return fmt.Sprintf("pipe/buf=%d/senders=%v/try=%v/closeErr=%v/closer=%s/recv=%d/cancel=%s", p.Buf, p.Senders, p.Try, p.CloseErr, p.Closer, p.RecvThenClose, p.Cancel)
}

// Body returns the scenario body.
func (p Params) Body() func() {
	return func() {
		sender, receiver := stream.Pipe[int](p.Buf)
		l := &log{}
		for _, s := range p.Senders {
			l.sendsLeft += len(s)
		}
		sendCtx, sendCancel := context.WithCancel(context.Background())
		nextCtx, nextCancel := context.WithCancel(context.Background())
		defer sendCancel()
		defer nextCancel()
		var wg sync.WaitGroup
		closeErr := error(nil)
		if p.CloseErr {
			closeErr = errClose
		}
		doClose := func() {
			hx.Atomically(func() { l.closeCallSeq = l.tick(); l.closeErr = closeErr })
			sender.Close(closeErr)
			hx.Atomically(func() { l.closeRetSeq = l.tick() })
		}
		for _, vals := range p.Senders {
			vals := vals
			wg.Add(1)
			go func() {
				defer wg.Done()
				for _, v := range vals {
					r := &sendRec{val: v, try: p.Try}
					hx.Atomically(func() { r.beginSeq = l.tick(); l.inflight++; l.sendsLeft--; l.sends = append(l.sends, r) })
					if p.Try {
						hx.NoBlock("TrySend", func() { r.ok, r.err = sender.TrySend(sendCtx, v) })
					} else {
						r.err = sender.Send(sendCtx, v)
						r.ok = r.err == nil
					}
					hx.Atomically(func() { r.endSeq = l.tick(); l.inflight-- })
				}
				if p.Closer == "last" {
					doClose()
				}
			}()
		}
		if p.Closer == "thread" {
			wg.Add(1)
			go func() { defer wg.Done(); doClose() }()
		}
		if p.Cancel != "" {
			wg.Add(1)
			go func() {
				defer wg.Done()
				if p.Cancel == "send" {
					sendCancel()
					hx.Atomically(func() { l.sendCancelRetSeq = l.tick() })
				} else {
					nextCancel()
				}
				_ = "nextRetry cancels the receiver's first context too"
			}()
		}
		// receiver = this thread
		sticky := false
		var stickyErr error
		calls := 0
		extra := 0
		for {
			if p.RecvThenClose >= 0 && calls == p.RecvThenClose {
				hx.Atomically(func() { l.recvClosed = l.tick() })
				receiver.Close()
				hx.Atomically(func() { l.recvClosedRetSeq = l.tick() })
				break
			}
			v, err := receiver.Next(nextCtx)
			calls++
			var quiet bool
			hx.Atomically(func() {
				l.nexts = append(l.nexts, nextRec{v, err, l.tick()})
				quiet = l.inflight == 0 && l.sendsLeft == 0
			})
			isEnd := err != nil && !errors.Is(err, context.Canceled)
			if sticky {
				// (a call that fails because of its own context says nothing about the pipe)
				if err != stickyErr && !errors.Is(err, context.Canceled) {
					hx.Fail("end-not-sticky", "Next reported %v, then (no Send in flight) (%d,%v)", stickyErr, v, err)
				}
			} else if isEnd && quiet {
				sticky, stickyErr = true, err
			}
			if err != nil {
				if errors.Is(err, context.Canceled) && p.Cancel == "nextRetry" {
					// a Next that gives up because its context ended costs nothing: go on with a live one
					nextCtx = context.Background()
					continue
				}
				if errors.Is(err, context.Canceled) && p.Cancel == "next" {
					// the receiver gives up: it has to close its end, as the Stream contract demands
					hx.Atomically(func() { l.recvClosed = l.tick() })
					receiver.Close()
					break
				}
				extra++
				if extra > 2 {
					break
				}
			}
		}
		wg.Wait()
		check(p, l)
	}
}

func check(p Params, l *log) {
	sent := map[int]*sendRec{}
	for _, s := range l.sends {
		sent[s.val] = s
	}
	// only sent values, each at most once
	seen := map[int]bool{}
	var got []int
	var firstEnd *nextRec
	for i := range l.nexts {
		n := &l.nexts[i]
		if n.err != nil {
			if firstEnd == nil && !errors.Is(n.err, context.Canceled) {
				firstEnd = n
			}
			continue
		}
		if sent[n.val] == nil {
			hx.Fail("received-unsent-value", "received %d which was never sent", n.val)
		}
		if seen[n.val] {
			hx.Fail("received-twice", "received %d twice", n.val)
		}
		seen[n.val] = true
		got = append(got, n.val)
	}
	// per-sender order
	for _, vals := range p.Senders {
		pos := map[int]int{}
		for i, v := range vals {
			pos[v] = i
		}
		last := -1
		for _, g := range got {
			if i, ok := pos[g]; ok {
				if i < last {
					hx.Fail("sender-order", "values of sender %v received as %v", vals, got)
				}
				last = i
			}
		}
	}
	// the reported end is End for Close(nil) and the close error for Close(err)
	if firstEnd != nil {
		want := error(stream.End)
		if l.closeErr != nil {
			want = l.closeErr
		}
		if l.closeCallSeq == 0 {
			hx.Fail("end-without-close", "receiver was told %v but the sender was never closed", firstEnd.err)
		}
		if firstEnd.err != want {
			hx.Fail("wrong-end", "receiver was told %v, sender closed with %v", firstEnd.err, l.closeErr)
		}
		// every value whose Send returned nil before the sender was closed is delivered before that
		for _, s := range l.sends {
			if s.err == nil && s.ok && s.endSeq < l.closeCallSeq {
				delivered := false
				for _, n := range l.nexts {
					if n.err == nil && n.val == s.val && n.seq < firstEnd.seq {
						delivered = true
					}
				}
				if !delivered {
					hx.Fail("acked-value-lost-or-end-not-sticky", "Send(%d) returned nil before Close was called, but the receiver, which kept reading, was told %v without having received it (received %v)", s.val, firstEnd.err, got)
				}
			}
		}
	}
	// error returns of Send are the documented ones
	for _, s := range l.sends {
		switch {
		case s.err == nil:
		case errors.Is(s.err, context.Canceled) && p.Cancel == "send":
		case s.err == stream.ErrClosedPipe && l.recvClosed != 0:
		case l.closeErr != nil && s.err == l.closeErr:
		default:
			hx.Fail("send-wrong-error", "Send(%d) returned %v (close error %v, receiver closed %v)", s.val, s.err, l.closeErr, l.recvClosed != 0)
		}
		if s.try && s.err != nil && s.ok {
			hx.Fail("trysend-true-with-error", "TrySend(%d) returned (true, %v)", s.val, s.err)
		}
		// TrySend looks before it sends ("If the receiver is already closed, returns ErrClosedPipe. If
		// ctx expires before x can be sent, returns ctx.Err()"): a call that BEGINS after the pipe was
		// closed from either end, or after its context was cancelled, sends nothing
		if s.try && s.ok {
			for what, at := range map[string]int{"the sender's Close": l.closeRetSeq, "the receiver's Close": l.recvClosedRetSeq, "the cancellation of its context": l.sendCancelRetSeq} {
				if at != 0 && s.beginSeq > at {
					hx.Fail("trysend-sent-after-close", "TrySend(%d) began after %s had returned and still reported (true, nil)", s.val, what)
				}
			}
		}
	}
	hx.Outcome("got=%v sends=%s end=%v", got, sendSummary(l), firstEnd != nil)
}

func sendSummary(l *log) string {
	s := ""
	for _, r := range l.sends {
		e := "nil"
		if r.err != nil {
			e = "err"
		}
		s += fmt.Sprintf("%d:%v/%s ", r.val, r.ok, e)
	}
	return s
}

// All returns the scenario table.
func All(quick bool) []Params {
	var out []Params
	for _, b := range []int{0, 1, 2} {
		for _, ce := range []bool{false, true} {
			out = append(out, Params{Buf: b, Senders: [][]int{{1, 2}}, CloseErr: ce, Closer: "last", RecvThenClose: -1})
		}
		out = append(out,
			Params{Buf: b, Senders: [][]int{{1, 2}, {11}}, CloseErr: true, Closer: "thread", RecvThenClose: -1},
			Params{Buf: b, Senders: [][]int{{1}, {11}}, CloseErr: false, Closer: "thread", RecvThenClose: -1},
			Params{Buf: b, Senders: [][]int{{1, 2, 3}}, Closer: "", RecvThenClose: 1},
			Params{Buf: b, Senders: [][]int{{1, 2}}, Closer: "", RecvThenClose: 0},
			Params{Buf: b, Senders: [][]int{{1, 2}}, Closer: "", RecvThenClose: 0, Cancel: "send"},
			Params{Buf: b, Senders: [][]int{{1}}, Closer: "", RecvThenClose: -1, Cancel: "next"},
			Params{Buf: b, Senders: [][]int{{1, 2}}, Closer: "last", RecvThenClose: -1, Cancel: "nextRetry"},
			// the element type's zero value is a value like any other
			Params{Buf: b, Senders: [][]int{{0, 5}}, CloseErr: b == 1, Closer: "last", RecvThenClose: -1},
			Params{Buf: b, Senders: [][]int{{1, 2}}, Try: true, Closer: "last", RecvThenClose: -1},
			Params{Buf: b, Senders: [][]int{{1, 2}, {11}}, Try: true, CloseErr: true, Closer: "thread", RecvThenClose: -1},
		)
	}
	// buffers far larger than the exhaustive part uses, full when the sender closes (explored with
	// few preemptions: the point is the number of buffered values, not the interleaving)
	seq := func(from, n int) []int {
		var v []int
		for i := 0; i < n; i++ {
			v = append(v, from+i)
		}
		return v
	}
	out = append(out,
		Params{Buf: 12, Senders: [][]int{seq(1, 12)}, Closer: "last", RecvThenClose: -1},
		Params{Buf: 12, Senders: [][]int{seq(1, 12)}, CloseErr: true, Closer: "last", RecvThenClose: -1},
		Params{Buf: 5, Senders: [][]int{seq(1, 7)}, Closer: "last", RecvThenClose: -1},
		Params{Buf: 6, Senders: [][]int{seq(1, 5), {101, 102}}, Try: true, CloseErr: true, Closer: "thread", RecvThenClose: -1},
		Params{Buf: 33, Senders: [][]int{seq(1, 40)}, Closer: "last", RecvThenClose: -1},
	)
	return out
}
