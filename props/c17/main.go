//go:build mcbuild

// C17: xsync.Group on the virtual clock. Engine E2.
package main

import (
	"strings"
	"time"

	"verif/mc"
	"verif/mc/mcx"
	"verif/props/c17/scn"
)

func main() {
	var scs []mcx.Scenario
	for _, s := range scn.All() {
		scs = append(scs, mcx.Scenario{Name: s.Name, Body: s.Body, Cfg: mc.Config{TimerMode: s.TimerMode, IdleClock: s.IdleClock}, Bound: 2, ThoroughBound: 3, SwitchBound: 3, Family: strings.SplitN(s.Name, "/", 2)[0], MaxTime: 2 * time.Minute})
	}
	mcx.Main("C17", scs, []string{
		"time is the runtime's virtual clock; math/rand answers (jitter) are enumerated from three representative values",
		"a trigger call counts from the moment it is invoked; it must be followed by a complete run of f that began after that moment",
	})
}
