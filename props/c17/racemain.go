//go:build !mcbuild

// C17, free-running -race side pass over the scenario bodies (sampling; only data-race reports count).
package main

import (
	"verif/mc/mcx"
	"verif/props/c17/scn"
)

func main() {
	var scs []mcx.NativeScenario
	for _, s := range scn.All() {
		scs = append(scs, mcx.NativeScenario{Name: s.Name, Body: s.Body})
	}
	mcx.NativeMain("C17", scs)
}
