// Package scn holds the C17 scenario bodies (xsync.Group) on the virtual clock.
package scn

import (
	"context"
	"fmt"
	"time"

	"github.com/bradenaw/juniper/xsync"

	"verif/mc/hx"
)

type Scenario struct {
	Name      string
	TimerMode int
	Body      func()
	// progress oracle: time passes only when no thread can run
	IdleClock bool
}

const ms = time.Millisecond

// runLog records the runs of one f.
type runLog struct {
	name    string
	seq     *int
	active  int
	starts  []int
	ends    []int
	stopped *bool
	dur     time.Duration
	inside  func() // called in the middle of every run, if set
}

func (r *runLog) f(ctx context.Context) {
	hx.Atomically(func() {
		if *r.stopped {
			hx.Fail("run-after-StopAndWait", "%s started after StopAndWait had returned", r.name)
		}
		r.active++
		if r.active > 1 {
			hx.Fail("runs-overlap", "two runs of %s overlap", r.name)
		}
		*r.seq++
		r.starts = append(r.starts, *r.seq)
	})
	if r.dur > 0 {
		hx.Sleep(r.dur)
	} else {
		hx.Yield()
	}
	if r.inside != nil {
		r.inside()
	}
	hx.Atomically(func() {
		if *r.stopped {
			hx.Fail("running-after-StopAndWait", "%s was still running when StopAndWait returned", r.name)
		}
		r.active--
		*r.seq++
		r.ends = append(r.ends, *r.seq)
	})
}

// stopRace: kinds of registrations racing with StopAndWait (and optionally the parent's cancel).
// twoStoppers: two threads call StopAndWait at the same time while a Do function is running (for
// dur): neither call returns before the function has finished.
func twoStoppers(dur time.Duration, mode int) Scenario {
	return Scenario{Name: fmt.Sprintf("stop/two-concurrent-StopAndWait/dur=%v/timerMode=%d", dur, mode), TimerMode: mode, Body: func() {
		g := xsync.NewGroup(context.Background())
		seq := 0
		stopped := false
		l := &runLog{name: "Do#0", seq: &seq, stopped: &stopped, dur: dur}
		started := make(chan struct{})
		l.inside = func() {}
		g.Do(func(ctx context.Context) {
			close(started)
			l.f(ctx)
		})
		<-started
		done := make(chan struct{}, 2)
		for i := 0; i < 2; i++ {
			go func() {
				g.StopAndWait()
				hx.Atomically(func() {
					if l.active != 0 || len(l.ends) == 0 {
						hx.Fail("running-after-StopAndWait", "a StopAndWait call returned while the function started through Do was still running")
					}
				})
				done <- struct{}{}
			}()
		}
		<-done
		<-done
		hx.Atomically(func() { stopped = true })
		hx.Quiesce()
		hx.Outcome("ok")
	}}
}

// stopThenStopAndWait: Stop (which does not wait) followed by StopAndWait, which still has to wait for
// the function that is running.
func stopThenStopAndWait(dur time.Duration) Scenario {
	return Scenario{Name: fmt.Sprintf("stop/Stop-then-StopAndWait/dur=%v", dur), Body: func() {
		g := xsync.NewGroup(context.Background())
		seq := 0
		stopped := false
		l := &runLog{name: "Do#0", seq: &seq, stopped: &stopped, dur: dur}
		started := make(chan struct{})
		g.Do(func(ctx context.Context) {
			close(started)
			l.f(ctx)
		})
		<-started
		g.Stop()
		g.StopAndWait()
		hx.Atomically(func() {
			if l.active != 0 || len(l.ends) == 0 {
				hx.Fail("running-after-StopAndWait", "StopAndWait (after an earlier Stop) returned while the function started through Do was still running")
			}
			stopped = true
		})
		hx.Quiesce()
		hx.Outcome("ok")
	}}
}

func stopRace(kinds []string, parentCancel bool, mode int) Scenario {
	return stopRaceX(kinds, parentCancel, false, mode)
}

// parentDeadline: the context given to NewGroup ends by a deadline 2 ms away (before or after the
// stop, which comes at 0 or 3 ms).
func stopRaceX(kinds []string, parentCancel, parentDeadline bool, mode int) Scenario {
	name := fmt.Sprintf("stop/%v/parentCancel=%v/timerMode=%d", kinds, parentCancel, mode)
	if parentDeadline {
		name = fmt.Sprintf("stop/%v/parentDeadline=2ms/timerMode=%d", kinds, mode)
	}
	return Scenario{Name: name, TimerMode: mode, Body: func() {
		parent, cancel := context.WithCancel(context.Background())
		if parentDeadline {
			parent, cancel = context.WithTimeout(context.Background(), 2*ms)
		}
		defer cancel()
		g := xsync.NewGroup(parent)
		seq := 0
		stopped := false
		var logs []*runLog
		for i, k := range kinds {
			k := k
			l := &runLog{name: fmt.Sprintf("%s#%d", k, i), seq: &seq, stopped: &stopped}
			logs = append(logs, l)
			var inner *runLog
			if k == "DoNested" {
				inner = &runLog{name: l.name + "/inner", seq: &seq, stopped: &stopped}
				logs = append(logs, inner)
			}
			go func() {
				switch k {
				case "DoNested":
					// a running f registers more work (the group may be stopping meanwhile)
					g.Do(func(ctx context.Context) {
						l.f(ctx)
						g.Do(inner.f)
						g.Trigger(inner.f)
					})
				case "TriggerSelf":
					// f calls its own trigger function twice (on its first run)
					var tr func()
					first := true
					tr = g.Trigger(func(ctx context.Context) {
						l.f(ctx)
						if first {
							first = false
							tr()
							tr()
						}
					})
					tr()
				case "Do":
					g.Do(l.f)
				case "Trigger":
					tr := g.Trigger(l.f)
					tr()
				case "Periodic":
					g.Periodic(2*ms, 0, l.f)
				case "PeriodicOrTrigger":
					tr := g.PeriodicOrTrigger(2*ms, 1*ms, l.f)
					tr()
				}
			}()
		}
		if parentCancel {
			go func() { cancel() }()
		}
		hx.Sleep(time.Duration(hx.Choose("stop-when", 2)) * 3 * ms)
		g.StopAndWait()
		hx.Atomically(func() {
			stopped = true
			for _, l := range logs {
				if l.active != 0 {
					hx.Fail("running-after-StopAndWait", "%s is still running although StopAndWait has returned", l.name)
				}
			}
		})
		// nothing starts later, however long we wait: neither what raced with the stop nor what is
		// registered after it
		late := &runLog{name: "Do#after-stop", seq: &seq, stopped: &stopped}
		g.Do(late.f)
		lateTr := &runLog{name: "Trigger#after-stop", seq: &seq, stopped: &stopped}
		g.Trigger(lateTr.f)()
		hx.Sleep(10 * ms)
		hx.Quiesce()
		if live := hx.Live(); len(live) > 0 {
			hx.Fail("goroutine-left-after-StopAndWait", "threads still alive after StopAndWait: %v", live)
		}
		n := 0
		for _, l := range logs {
			n += len(l.starts)
		}
		hx.Outcome("runs=%d", n)
	}}
}

// triggers: calls[i] = number of trigger calls thread i makes; f runs for dur (0 = one scheduling
// point). kind: "Trigger" or "PeriodicOrTrigger" (with an interval far beyond the scenario).
func triggers(kind string, calls []int, dur time.Duration, mode int) Scenario {
	return triggersX(kind, calls, dur, mode, 0)
}

// selfCalls: the first run of f calls the trigger function that many times itself.
func triggersX(kind string, calls []int, dur time.Duration, mode int, selfCalls int) Scenario {
	name := fmt.Sprintf("trigger/%s/calls=%v/dur=%v/timerMode=%d", kind, calls, dur, mode)
	if selfCalls > 0 {
		name += fmt.Sprintf("/first-run-triggers-%d-times-itself", selfCalls)
	}
	return Scenario{Name: name, TimerMode: mode, Body: func() {
		g := xsync.NewGroup(context.Background())
		seq := 0
		stopped := false
		l := &runLog{name: "f", seq: &seq, stopped: &stopped, dur: dur}
		var tr func()
		if kind == "Trigger" {
			tr = g.Trigger(l.f)
		} else {
			tr = g.PeriodicOrTrigger(1000*ms, 0, l.f)
		}
		var callSeqs []int
		if selfCalls > 0 {
			firstRun := true
			l.inside = func() {
				if !firstRun {
					return
				}
				firstRun = false
				for i := 0; i < selfCalls; i++ {
					hx.Atomically(func() { seq++; callSeqs = append(callSeqs, seq) })
					tr()
				}
			}
		}
		done := make(chan struct{}, len(calls))
		for _, n := range calls {
			n := n
			go func() {
				for i := 0; i < n; i++ {
					hx.Atomically(func() { seq++; callSeqs = append(callSeqs, seq) })
					tr()
					if dur > 0 {
						hx.Sleep(time.Duration(hx.Choose("gap", 2)) * dur)
					}
				}
				done <- struct{}{}
			}()
		}
		for range calls {
			<-done
		}
		if dur > 0 {
			hx.Sleep(4 * dur)
		}
		if kind == "Trigger" {
			hx.Quiesce() // no timers of the library's own: let a run in progress finish
		} else {
			hx.QuiesceNow()
		}
		hx.Atomically(func() {
			for _, c := range callSeqs {
				ok := false
				for i, s := range l.starts {
					if s > c && i < len(l.ends) {
						ok = true
					}
				}
				if !ok {
					hx.Fail("trigger-lost", "a trigger call (event %d) is not followed by a complete run of f that began after it; runs started at events %v, ended at %v", c, l.starts, l.ends)
				}
			}
			if kind == "Trigger" && len(l.starts) > len(callSeqs) {
				hx.Fail("more-runs-than-triggers", "%d trigger calls, %d runs", len(callSeqs), len(l.starts))
			}
		})
		g.StopAndWait()
		hx.Atomically(func() { stopped = true })
		hx.Outcome("calls=%d runs=%d", len(callSeqs), len(l.starts))
	}}
}

// periodic: kind "Periodic" or "PeriodicOrTrigger" (with one trigger at a chosen time); f runs for
// dur. Observed for a window, then for a second window in which at least one more run must start.
func periodic(kind string, interval, jitter, dur time.Duration, mode int) Scenario {
	return Scenario{Name: fmt.Sprintf("periodic/%s/interval=%v/jitter=%v/dur=%v/timerMode=%d", kind, interval, jitter, dur, mode), TimerMode: mode, IdleClock: true, Body: func() {
		g := xsync.NewGroup(context.Background())
		seq := 0
		stopped := false
		l := &runLog{name: "f", seq: &seq, stopped: &stopped, dur: dur}
		if kind == "Periodic" {
			g.Periodic(interval, jitter, l.f)
		} else {
			tr := g.PeriodicOrTrigger(interval, jitter, l.f)
			go func() {
				hx.Sleep(time.Duration(1+hx.Choose("trigger-at", 3)) * interval / 2 * 3)
				tr()
			}()
		}
		window := 5 * (interval + jitter + dur)
		hx.Sleep(window)
		var before int
		hx.Atomically(func() { before = len(l.starts) })
		if dur == 0 && kind == "Periodic" {
			want := int(window/(interval+jitter)) - 1
			if before < want {
				hx.Fail("periodic-too-few-runs", "%d runs in %v with interval %v +/- %v, want at least %d", before, window, interval, jitter, want)
			}
		}
		hx.Sleep(3 * (interval + jitter + dur))
		var after int
		hx.Atomically(func() { after = len(l.starts) })
		if after == before {
			hx.Fail("periodic-stopped-being-invoked", "no run of f started during %v although the group was not stopped (%d runs before)", 3*(interval+jitter+dur), before)
		}
		g.StopAndWait()
		hx.Atomically(func() { stopped = true })
		hx.Sleep(3 * (interval + jitter))
		hx.Quiesce()
		hx.Outcome("runs>=%d", before)
	}}
}

func All() []Scenario {
	var out []Scenario
	for _, k := range []string{"Do", "Trigger", "Periodic", "PeriodicOrTrigger"} {
		out = append(out, stopRace([]string{k}, false, 0))
	}
	out = append(out,
		stopRace([]string{"Do", "Do"}, false, 0),
		stopRace([]string{"Do", "Trigger"}, true, 0),
		stopRace([]string{"Periodic"}, true, 1),
		stopRace([]string{"PeriodicOrTrigger"}, false, 1),
		twoStoppers(0, 0), twoStoppers(2*ms, 1), stopThenStopAndWait(2*ms),
		stopRace([]string{"DoNested"}, false, 0),
		stopRace([]string{"TriggerSelf"}, false, 0),
		stopRaceX([]string{"Do"}, false, true, 0),
		stopRaceX([]string{"Trigger", "Periodic"}, false, true, 1),
		triggers("Trigger", []int{1}, 0, 0),
		triggers("Trigger", []int{2}, 0, 0),
		triggers("Trigger", []int{1, 1}, 0, 0),
		triggersX("Trigger", []int{1}, 0, 0, 2),
		triggersX("PeriodicOrTrigger", []int{1}, 0, 0, 2),
		triggers("Trigger", []int{2, 1}, 0, 0),
		triggers("Trigger", []int{2}, 2*ms, 0),
		triggers("PeriodicOrTrigger", []int{1, 1}, 0, 0),
		triggers("PeriodicOrTrigger", []int{2}, 0, 1),
		periodic("Periodic", 4*ms, 1*ms, 0, 0),
		// interval 0: f is simply invoked again and again (one run at a time)
		periodic("Periodic", 0, 0, 2*ms, 0),
		periodic("PeriodicOrTrigger", 0, 0, 2*ms, 1),
		periodic("Periodic", 4*ms, 0, 6*ms, 0),
		periodic("PeriodicOrTrigger", 4*ms, 1*ms, 0, 0),
		periodic("PeriodicOrTrigger", 4*ms, 0, 6*ms, 0),
		periodic("PeriodicOrTrigger", 4*ms, 0, 6*ms, 1),
	)
	return out
}
