//go:build !mcbuild

// C16, free-running -race side pass over the scenario bodies (sampling; only data-race reports count).
package main

import (
	"verif/mc/mcx"
	"verif/props/c16/scn"
)

func main() {
	var scs []mcx.NativeScenario
	for _, p := range scn.All() {
		scs = append(scs, mcx.NativeScenario{Name: p.Name(), Body: p.Body()})
	}
	mcx.NativeMain("C16", scs)
}
