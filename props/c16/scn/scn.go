// Package scn holds the C16 scenario bodies (xsync.ContextCond).
package scn

import (
	"context"
	"fmt"
	"sync"
	"time"

	"github.com/bradenaw/juniper/xsync"

	"verif/mc/hx"
)

type Params struct {
	K         int  // waiters
	M         int  // Signal calls (0 with Broadcast)
	Broadcast bool // one Broadcast instead of M signals
	// Cancel: "" none; "early": waiter 0's context may be cancelled at any time by a separate thread.
	Cancel string
	// Broadcast calls made before any waiter exists (the channel is then a replacement one).
	Prior int
	// Late: further waiters that enter Wait while the Broadcast is being issued (they are not among
	// the k, so nothing is demanded for them; they must not cost any of the k its wake-up).
	Late int
	// Shared: the Locker is the read side of a reader/writer lock (sync.RWMutex.RLocker()), so
	// several waiters can be inside Wait's prologue at once.
	Shared bool
	// Both: with Broadcast, a second thread issues M Signals at the same time.
	Both bool
}

func (p Params) Name() string {
	s := fmt.Sprintf("cond/k=%d/m=%d/broadcast=%v/cancel=%s/priorBroadcasts=%d", p.K, p.M, p.Broadcast, p.Cancel, p.Prior)
	if p.Late > 0 {
		s += fmt.Sprintf("/lateWaiters=%d", p.Late)
	}
	if p.Shared {
		s += "/L=RLocker"
	}
	if p.Both {
		s += "/signals-race-the-broadcast"
	}
	return s
}

func (p Params) Body() func() {
	return func() {
		l := &hx.Locker{Shared: p.Shared}
		entered := make(chan struct{}, p.K)
		l.OnUnlock = func() {
			select {
			case entered <- struct{}{}:
			default:
			}
		}
		c := xsync.NewContextCond(l)
		for i := 0; i < p.Prior; i++ {
			c.Broadcast()
		}
		type wres struct {
			done bool
			err  error
		}
		res := make([]wres, p.K+p.Late)
		ctxs := make([]context.Context, p.K+p.Late)
		cancels := make([]context.CancelFunc, p.K+p.Late)
		cancelled := make([]bool, p.K+p.Late)
		allEntered := make(chan struct{})
		for i := range ctxs {
			ctxs[i], cancels[i] = context.WithCancel(context.Background())
		}
		if p.Cancel == "stale" {
			// waiter 0's context was cancelled BEFORE its deadline, which has passed by the time it
			// calls Wait: the context's error is Canceled, not DeadlineExceeded
			ctxs[0], cancels[0] = context.WithDeadline(context.Background(), time.Now().Add(2*time.Millisecond))
			cancels[0]()
			cancelled[0] = true
		}
		var wg sync.WaitGroup
		for i := 0; i < p.K+p.Late; i++ {
			i := i
			wg.Add(1)
			go func() {
				defer wg.Done()
				if i >= p.K {
					<-allEntered
				}
				if p.Cancel == "stale" && i == 0 {
					hx.Sleep(5 * time.Millisecond)
				}
				l.Lock()
				err := c.Wait(ctxs[i])
				held := l.HeldByMe()
				if err == nil {
					if !held {
						hx.Fail("nil-return-without-lock", "Wait returned nil but the caller does not hold the lock")
					}
					l.ClearOnUnlock()
					l.Unlock()
				} else {
					if held {
						hx.Fail("error-return-holds-lock", "Wait returned %v and holds the lock", err)
					}
					if err != ctxs[i].Err() || err == nil {
						hx.Fail("wrong-error", "Wait returned %v, context error is %v", err, ctxs[i].Err())
					}
				}
				hx.Atomically(func() { res[i] = wres{true, err} })
			}()
		}
		// signaller: waits until all k waiters have released the lock inside Wait
		wg.Add(1)
		go func() {
			defer wg.Done()
			for i := 0; i < p.K; i++ {
				<-entered
			}
			close(allEntered)
			if p.Both {
				wg.Add(1)
				go func() {
					defer wg.Done()
					for i := 0; i < p.M; i++ {
						c.Signal()
					}
				}()
			}
			if p.Broadcast {
				c.Broadcast()
			} else {
				for i := 0; i < p.M; i++ {
					c.Signal()
				}
			}
		}()
		if p.Cancel != "" && p.Cancel != "stale" {
			wg.Add(1)
			go func() {
				defer wg.Done()
				hx.Atomically(func() { cancelled[0] = true })
				cancels[0]()
			}()
		}
		hx.Quiesce()
		// at quiescence
		blockedLive, nilReturns := 0, 0
		stuck := -1
		hx.Atomically(func() {
			for i := 0; i < p.K; i++ {
				if !res[i].done {
					if cancelled[i] {
						stuck = i
					}
					blockedLive++
				} else if res[i].err == nil {
					nilReturns++
				}
			}
		})
		if stuck >= 0 {
			hx.Fail("cancelled-wait-still-blocked", "waiter %d's context is cancelled but its Wait has not returned", stuck)
		}
		if p.Broadcast {
			if blockedLive > 0 {
				hx.Fail("broadcast-missed", "Broadcast was issued after all %d waiters had released the lock, but %d are still blocked", p.K, blockedLive)
			}
		} else if blockedLive > 0 && nilReturns < p.M {
			// with late waiters (who entered while the Signals were being issued): did the wake-ups at
			// least reach SOMEBODY, or did they vanish?
			lateNil := 0
			hx.Atomically(func() {
				for i := p.K; i < p.K+p.Late; i++ {
					if res[i].done && res[i].err == nil {
						lateNil++
					}
				}
			})
			if p.Late > 0 && nilReturns+lateNil >= p.M {
				hx.Fail("late-waiter-took-the-wakeup", "%d Signal calls were issued after %d waiters had released the lock; %d of them were woken, the other wake-ups went to waiters that entered later, and %d of the %d are still blocked", p.M, p.K, nilReturns, blockedLive, p.K)
			}
			hx.Fail("lost-wakeup", "%d Signal calls were issued after all %d waiters had released the lock; only %d Wait calls returned nil while %d waiters with a live context are still blocked", p.M, p.K, nilReturns, blockedLive)
		}
		hx.Outcome("nil=%d blocked=%d", nilReturns, blockedLive)
		for i := range cancels {
			cancels[i]()
		}
		wg.Wait()
	}
}

// twoRounds: round 1 = one waiter whose context a thread cancels while a Broadcast is issued;
// round 2 (after everything of round 1 has settled) = a fresh waiter and one Signal issued after it
// has released the lock. Whatever bookkeeping round 1 left behind must not cost round 2 its wake-up.
func TwoRounds() func() {
	return func() {
		l := &hx.Locker{}
		c := xsync.NewContextCond(l)
		ctx1, cancel1 := context.WithCancel(context.Background())
		var wg sync.WaitGroup
		entered := make(chan struct{}, 2)
		l.OnUnlock = func() {
			select {
			case entered <- struct{}{}:
			default:
			}
		}
		wg.Add(3)
		go func() {
			defer wg.Done()
			l.Lock()
			if err := c.Wait(ctx1); err == nil {
				l.Unlock()
			}
		}()
		go func() { defer wg.Done(); <-entered; c.Broadcast() }()
		go func() { defer wg.Done(); cancel1() }()
		wg.Wait()
		// round 2
		for len(entered) > 0 {
			<-entered
		}
		woke := false
		done := make(chan struct{})
		go func() {
			defer close(done)
			l.Lock()
			if err := c.Wait(context.Background()); err == nil {
				hx.Atomically(func() { woke = true })
				l.Unlock()
			}
		}()
		<-entered
		c.Signal()
		hx.Quiesce()
		ok := false
		hx.Atomically(func() { ok = woke })
		if !ok {
			hx.Fail("lost-wakeup-in-second-round", "after a first round (one waiter, a Broadcast and a cancellation) had settled, a fresh waiter released the lock and one Signal was issued, yet the waiter is still blocked")
		}
		<-done
		hx.Outcome("ok")
	}
}

func All() []Params {
	var out []Params
	for k := 1; k <= 3; k++ {
		for m := 1; m <= 3; m++ {
			if k == 3 && m == 3 {
				continue
			}
			out = append(out, Params{K: k, M: m})
		}
		out = append(out, Params{K: k, Broadcast: true})
	}
	out = append(out,
		Params{K: 1, M: 1, Cancel: "early"},
		Params{K: 2, M: 1, Cancel: "early"},
		Params{K: 2, M: 2, Cancel: "early"},
		Params{K: 2, Broadcast: true, Cancel: "early"},
		Params{K: 1, M: 1, Prior: 1},
		Params{K: 2, M: 1, Prior: 1},
		Params{K: 1, Broadcast: true, Prior: 1},
		Params{K: 2, M: 1, Cancel: "stale"},
		Params{K: 1, Broadcast: true, Cancel: "stale"},
		Params{K: 2, Broadcast: true, Prior: 1, Shared: true},
		Params{K: 2, M: 1, Prior: 1, Shared: true},
		Params{K: 1, M: 1, Broadcast: true, Both: true},
		Params{K: 2, M: 2, Broadcast: true, Both: true},
		Params{K: 1, M: 1, Late: 1},
		Params{K: 1, Broadcast: true, Late: 1},
		Params{K: 2, Broadcast: true, Late: 1},
	)
	return out
}
