//go:build mcbuild

// C16: xsync.ContextCond never loses a wakeup. Engine E2.
package main

import (
	"fmt"
	"time"

	"verif/mc/mcx"
	"verif/props/c16/scn"
)

func main() {
	var scs []mcx.Scenario
	for _, p := range scn.All() {
		b, tb := 2, 3
		if p.K == 1 && p.M <= 2 && p.Cancel == "" && p.Late == 0 && !p.Both && !p.Shared {
			b, tb = -1, -1 // small enough to explore every schedule
		}
		sig := "cond"
		if !p.Broadcast {
			sig = fmt.Sprintf("cond/k=%d,m=%d,cancel=%v", p.K, p.M, p.Cancel != "")
		}
		sw := 0
		if p.K >= 3 || p.K+p.Late >= 3 || p.Both {
			sw = 3
		}
		scs = append(scs, mcx.Scenario{Name: p.Name(), Body: p.Body(), Bound: b, ThoroughBound: tb, SwitchBound: sw, Family: sig, MaxTime: 5 * time.Minute})
	}
	scs = append(scs, mcx.Scenario{Name: "cond/two-rounds", Body: scn.TwoRounds(), Bound: 2, ThoroughBound: 3, Family: "cond", MaxTime: 5 * time.Minute})
	mcx.Main("C16", scs, []string{
		"a waiter has 'entered Wait' once it has released the caller's lock (observed through the Locker's Unlock)",
		"violation rule at quiescence: some waiter with a live context is still blocked although fewer Wait calls returned nil than Signal calls were issued (Broadcast: any waiter still blocked)",
	})
}
