//go:build verif

// C04: deque.Deque equals an ideal double-ended sequence for every history.
//
// Engine E1: breadth-first closure, from the zero value, over every reachable ring-buffer
// configuration (buffer nil/allocated, capacity, front, back, occupancy pattern) of the real Deque
// with capacity bounded by C. Every operation/argument class is applied in every state; the
// immediate result and (for panicking calls) "state unchanged" are checked on every transition and
// a full observation (Len, Front, Back, Item(-1..len), Iterate, raw-slot retention) on every state.
package main

import (
	"fmt"

	"github.com/bradenaw/juniper/container/deque"

	"verif/internal/dq"
	"verif/internal/seqx"
	"verif/internal/vx"
)

type sys struct{ maxCap int }

func replay(path []seqx.Op) (d *dq.D, readable []string, v *seqx.Viol) {
	d = dq.New()
	for i, o := range path {
		r, viol := d.Apply(o)
		readable = append(readable, r)
		if viol != nil {
			if i != len(path)-1 {
				viol.Sig = "prefix/" + viol.Sig
			}
			return d, readable, viol
		}
	}
	return d, readable, nil
}

func (s sys) Run(path []seqx.Op) (res seqx.Result) {
	d, _, v := replay(path)
	res.Checks = 1
	if v != nil {
		res.Viol = v
		return
	}
	// cheap part of the observation on every transition
	if d.Real.Len() != len(d.Model) {
		res.Viol = &seqx.Viol{Sig: "observe/len", Detail: fmt.Sprintf("Len()=%d, model %d", d.Real.Len(), len(d.Model))}
		return
	}
	// Grow and Shrink never change the contents (checked in full: it is the statement's own clause)
	if len(path) > 0 {
		if k := path[len(path)-1].K; k == dq.OpGrow || k == dq.OpShrink {
			if v := d.Observe(); v != nil {
				v.Sig = v.Sig + "/after-" + dq.OpNames[k]
				res.Viol = v
				return
			}
		}
	}
	if d.Real.VerifState().Cap > s.maxCap {
		return // outside the capacity bound: checked, not expanded
	}
	res.Key = d.Key()
	res.Next = d.Enabled()
	return
}

// bigSys: no capacity bound, no de-duplication; the full observation after every sequence. Used from
// large seed states (capacities the closure does not reach: 64, 128, 256 and odd ones after Grow).
type bigSys struct{}

func (bigSys) Run(path []seqx.Op) (res seqx.Result) {
	d, _, v := replay(path)
	res.Checks = 1
	if v != nil {
		res.Viol = v
		return
	}
	if v := d.Observe(); v != nil {
		if len(path) > 0 {
			v.Sig = v.Sig + "/after-" + dq.OpNames[path[len(path)-1].K]
		}
		res.Viol = v
		return
	}
	res.Key = "x"
	res.Next = d.Enabled()
	return
}

func bigSeeds() [][]seqx.Op {
	var seeds [][]seqx.Op
	rep := func(k uint8, n int) []seqx.Op {
		var o []seqx.Op
		for i := 0; i < n; i++ {
			o = append(o, seqx.Op{K: k})
		}
		return o
	}
	cat := func(parts ...[]seqx.Op) []seqx.Op {
		var o []seqx.Op
		for _, p := range parts {
			o = append(o, p...)
		}
		return o
	}
	// rotations: the ring's front at several positions of a full or nearly full buffer, also of a
	// buffer whose capacity is not a power of two (grown by an odd amount first)
	rot := func(r int) []seqx.Op {
		var o []seqx.Op
		for i := 0; i < r; i++ {
			o = append(o, seqx.Op{K: dq.OpPopFront}, seqx.Op{K: dq.OpPushBack})
		}
		return o
	}
	for _, n := range []int{32, 33, 48, 64} {
		for _, r := range []int{1, n / 2, n - 1, n} {
			seeds = append(seeds,
				cat(rep(dq.OpPushBack, n), rot(r)),
				cat(rep(dq.OpPushBack, 3), []seqx.Op{{K: dq.OpGrow, A: 4}}, rep(dq.OpPushBack, n), rot(r)),
				cat(rep(dq.OpPushBack, 5), []seqx.Op{{K: dq.OpGrow, A: 3}}, rep(dq.OpPushFront, n), rot(r)),
			)
		}
	}
	for _, n := range []int{31, 32, 33, 63, 64, 65, 127, 128, 129, 255, 256, 511, 512, 513, 1024, 1025} {
		seeds = append(seeds,
			rep(dq.OpPushBack, n),
			rep(dq.OpPushFront, n),
			// wrapped: fill, drop some from the front, refill at the back
			cat(rep(dq.OpPushBack, n), rep(dq.OpPopFront, 7), rep(dq.OpPushBack, 7)),
			// wrapped the other way and one short of full
			cat(rep(dq.OpPushFront, n), rep(dq.OpPopBack, 9), rep(dq.OpPushFront, 8)),
			// grown to an odd capacity first
			cat(rep(dq.OpPushBack, 3), []seqx.Op{{K: dq.OpGrow, A: 4}}, rep(dq.OpPushBack, n)),
		)
	}
	return seeds
}

// scale drives one real deque next to a two-stack model (linear time) and observes it in full at the
// sizes where index arithmetic narrower than int would wrap.
func scale(n int) *seqx.Viol {
	var q deque.Deque[int]
	var fp, bp []int // contents = reverse(fp[fpLo:]) ++ bp[bpLo:]
	fpLo, bpLo := 0, 0
	size := func() int { return len(fp) - fpLo + len(bp) - bpLo }
	at := func(i int) int {
		nf := len(fp) - fpLo
		if i < nf {
			return fp[len(fp)-1-i]
		}
		return bp[bpLo+i-nf]
	}
	next := 0
	fail := func(sig, format string, a ...any) *seqx.Viol {
		return &seqx.Viol{Sig: "scale/" + sig, Detail: fmt.Sprintf("with %d items: ", size()) + fmt.Sprintf(format, a...)}
	}
	observe := func(what string) *seqx.Viol {
		m := size()
		if q.Len() != m {
			return fail("len", "%s: Len()=%d, model %d", what, q.Len(), m)
		}
		if m > 0 && (q.Front() != at(0) || q.Back() != at(m-1)) {
			return fail("front-back", "%s: Front/Back = %d/%d, model %d/%d", what, q.Front(), q.Back(), at(0), at(m-1))
		}
		for i := 0; i < m; i++ {
			if got := q.Item(i); got != at(i) {
				return fail("item", "%s: Item(%d)=%d, model %d", what, i, got, at(i))
			}
		}
		it := q.Iterate()
		for i := 0; i <= m; i++ {
			x, ok := it.Next()
			if ok != (i < m) || (ok && x != at(i)) {
				return fail("iterate", "%s: Iterate item #%d = (%d,%v), model length %d", what, i, x, ok, m)
			}
		}
		st, slots := q.VerifState(), q.VerifSlots()
		nonzero := 0
		for _, x := range slots {
			if x != 0 {
				nonzero++
			}
		}
		if nonzero != m { // (all model items are non-zero)
			return fail("retention", "%s: %d raw slots are occupied, %d items are held (cap %d)", what, nonzero, m, st.Cap)
		}
		return nil
	}
	checkAt := map[int]bool{255: true, 256: true, 257: true, 65535: true, 65536: true, 65537: true, n: true, 0: true}
	var viol *seqx.Viol
	popFront := func() {
		var want int
		if len(fp) > fpLo {
			want = fp[len(fp)-1]
			fp = fp[:len(fp)-1]
		} else {
			want = bp[bpLo]
			bpLo++
		}
		if got := q.PopFront(); got != want && viol == nil {
			viol = fail("wrong-item", "PopFront returned %d, model %d", got, want)
		}
	}
	popBack := func() {
		var want int
		if len(bp) > bpLo {
			want = bp[len(bp)-1]
			bp = bp[:len(bp)-1]
		} else {
			want = fp[fpLo]
			fpLo++
		}
		if got := q.PopBack(); got != want && viol == nil {
			viol = fail("wrong-item", "PopBack returned %d, model %d", got, want)
		}
	}
	if p := vx.Catch(func() {
		step := 0
		for size() < n && viol == nil {
			step++
			next++
			switch step % 5 {
			case 0, 1:
				q.PushBack(next)
				bp = append(bp, next)
			case 2, 3:
				q.PushFront(next)
				fp = append(fp, next)
			default:
				popFront() // keeps the ring's front moving
			}
			if checkAt[size()] && step%5 != 4 && viol == nil {
				what := fmt.Sprintf("grown to %d items", size())
				if viol = observe(what); viol != nil {
					return
				}
				q.Shrink(0)
				if viol = observe(what + " then Shrink(0)"); viol != nil {
					return
				}
				q.Grow(3)
				if viol = observe(what + " then Grow(3)"); viol != nil {
					return
				}
				q.Shrink(1)
				if viol = observe(what + " then Shrink(1)"); viol != nil {
					return
				}
			}
		}
		for size() > 0 && viol == nil {
			if size()%2 == 0 {
				popFront()
			} else {
				popBack()
			}
			if checkAt[size()] && viol == nil {
				if viol = observe(fmt.Sprintf("drained to %d items", size())); viol != nil {
					return
				}
			}
		}
	}); p != nil {
		return fail("panic", "%v", p)
	}
	return viol
}

func readablePath(path []seqx.Op) []string {
	_, r, _ := replay(path)
	return r
}

func main() {
	run := vx.Start("C04")
	if run.Replay != "" {
		var rp struct {
			Ops []seqx.Op `json:"ops"`
		}
		run.LoadReplay(&rp)
		d, r, v := replay(rp.Ops)
		fmt.Println(r)
		if v == nil {
			v = d.Observe()
		}
		if v != nil {
			run.Violate(vx.Violation{Signature: v.Sig, Detail: v.Detail, Replay: rp})
		}
		run.Finish()
	}
	maxCap := 36
	if !run.Quick() {
		maxCap = 136
	}
	s := sys{maxCap: maxCap}
	st := seqx.Explore(s, seqx.Config{
		Deadline: run.Deadline,
		OnNewState: func(path []seqx.Op) *seqx.Viol {
			d, _, v := replay(path)
			if v != nil {
				return v
			}
			if v := d.Observe(); v != nil {
				if len(path) > 0 {
					v.Sig = v.Sig + "/after-" + dq.OpNames[path[len(path)-1].K]
				}
				return v
			}
			return nil
		},
	})
	run.AddCounts(st.States, st.Transitions, st.Transitions)
	if st.Capped != "" {
		run.Capped(st.Capped)
	}
	for _, p := range st.SamplePaths {
		run.Sample(map[string]any{"ops": readablePath(p)})
	}
	if len(st.Viols) > 0 {
		v := st.Viols[0]
		run.Violate(vx.Violation{Signature: v.Viol.Sig, Detail: fmt.Sprintf("%s; history %v", v.Viol.Detail, readablePath(v.Path)),
			Replay: map[string]any{"ops": v.Path, "readable": readablePath(v.Path)}})
	}
	// large capacities: every sequence of two operations from large seed states
	stB := seqx.Enumerate(bigSys{}, bigSeeds(), 2, seqx.Config{Deadline: run.Deadline})
	run.AddCounts(stB.States, stB.Transitions, stB.Transitions)
	if stB.Capped != "" {
		run.Capped("large seeds: " + stB.Capped)
	}
	if len(stB.Viols) > 0 {
		v := stB.Viols[0]
		rd := readablePath(v.Path)
		if len(rd) > 12 {
			rd = append([]string{fmt.Sprintf("(%d seed operations)", len(rd)-6)}, rd[len(rd)-6:]...)
		}
		run.Violate(vx.Violation{Signature: v.Viol.Sig, Detail: fmt.Sprintf("%s; history %v", v.Viol.Detail, rd), Replay: map[string]any{"ops": v.Path}})
	}
	run.Set("large_seed_states", map[string]any{"seeds": len(bigSeeds()), "fill_sizes": []int{31, 32, 33, 63, 64, 65, 127, 128, 129, 255, 256, 511, 512, 513, 1024, 1025}, "rotated_fills": "32/33/48/64 items rotated by 1, n/2, n-1, n positions, also in buffers of odd capacity", "depth": 2, "sequences": stB.Transitions})
	// one long history: sizes beyond 2^8 and 2^16 (narrow index arithmetic would wrap there)
	if v := scale(70000); v != nil {
		run.Violate(vx.Violation{Signature: v.Sig, Detail: v.Detail, Replay: map[string]any{"ops": []seqx.Op{}, "mode": "scale"}})
	}
	run.AddCounts(1, 3*70000, 3*70000)
	run.Set("scale", "one deque grown to 70 000 items through PushBack/PushFront with pops in between (so the ring wraps), full observation at 255, 256, 257, 65535, 65536, 65537 and 70 000 items, Shrink(0) and Grow at those sizes, then drained from both ends")
	run.Set("capacity_bound", maxCap)
	run.Set("bfs_depth", st.MaxDepth)
	run.Set("states_per_depth", st.PerDepth)
	run.Set("rule", "state = (buffer nil?, capacity, front, back, occupancy pattern of raw slots) of the real Deque; alphabet = PushFront/PushBack/PopFront/PopBack/Set(-1,0,len/2,len-1,len)/Grow,Shrink(-1,0,1,2,3,len,cap,free,free+1); states with capacity above the bound are checked but not expanded")
	run.Assume("element values are opaque to the deque (parametricity): states are de-duplicated up to the values stored")
	run.Finish()
}
