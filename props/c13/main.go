//go:build mcbuild

// C13: parallel.Do / DoContext / Map / MapContext. Engine E2.
package main

import (
	"time"

	"verif/mc"
	"verif/mc/mcx"
	"verif/props/c13/scn"
)

func main() {
	var scs []mcx.Scenario
	for _, p := range scn.All() {
		sw := 0
		if p.N >= 3 && (p.P >= 3 || p.P <= 0) {
			sw = 3
		}
		sc := mcx.Scenario{Name: p.Name(), Body: p.Body(), Cfg: mc.Config{GOMAXPROCS: p.Procs}, Bound: 3, ThoroughBound: 4, SwitchBound: sw, Family: "par/" + p.Variant, MaxTime: 3 * time.Minute}
		if p.N >= 300 {
			sc.Cfg.MaxSteps = 400000
		}
		if p.N >= 40 && p.N < 300 && len(p.Fail) > 0 {
			// two preemptions: into the other worker, and back while it is in the middle of its work
			sc.Bound, sc.ThoroughBound, sc.SwitchBound = 2, 2, 1
		} else if p.N >= 300 && len(p.Fail) > 0 {
			// the failing call has to finish while another worker is in the middle of its work
			sc.Bound, sc.ThoroughBound, sc.SwitchBound = 1, 1, 1
		} else if p.N >= 17 {
			sc.Bound, sc.ThoroughBound, sc.SwitchBound = 0, 1, 1
		} else if p.N >= 5 {
			sc.Bound, sc.ThoroughBound, sc.SwitchBound = 1, 2, 2
		}
		scs = append(scs, sc)
	}
	mcx.Main("C13", scs, []string{
		"every call of f contains one scheduling point between its start and its end, so every relative order of call starts and ends is reachable (all latency patterns)",
		"runtime.GOMAXPROCS(-1) is answered by the harness (2 or 3)",
	})
}
