// Package scn holds the C13 scenario bodies (parallel.Do / DoContext / Map / MapContext).
package scn

import (
	"context"
	"errors"
	"fmt"
	"runtime"
	"time"

	"github.com/bradenaw/juniper/parallel"

	"verif/mc/hx"
)

type Params struct {
	Variant string // "Do", "DoContext", "Map", "MapContext"
	N, P    int
	Fail    []int  // indices whose call returns an error (Context variants)
	Ctx     string // "live", "precancelled", "midflight", "deadline" (the caller's context ends by a deadline mid-flight)
	Procs   int    // value GOMAXPROCS reports (set in mc.Config by main)
	// FailWrapsCanceled: the failing calls return an error of their own that wraps context.Canceled
	// (errors.Is(err, context.Canceled) holds although nobody was cancelled)
	FailWrapsCanceled bool
	// GoexitAt: the call for this index ends its goroutine with runtime.Goexit (as t.Fatal inside f
	// does) instead of returning; 0 = none (index 0 never does)
	GoexitAt int
	// BlockOthers: calls that do not fail return only once the context they were handed has ended
	// (work that honours cancellation): the cancellation caused by the failing call has to reach them
	// while they run, or the function never returns
	BlockOthers bool
}

func (p Params) Name() string {
	s := fmt.Sprintf("par/%s/n=%d/p=%d/fail=%v/ctx=%s/procs=%d", p.Variant, p.N, p.P, p.Fail, p.Ctx, p.Procs)
	if p.FailWrapsCanceled {
		s += "/errors-wrap-Canceled"
	}
	if p.GoexitAt > 0 {
		s += fmt.Sprintf("/f(%d)-calls-Goexit", p.GoexitAt)
	}
	if p.BlockOthers {
		s += "/other-calls-wait-for-cancellation"
	}
	return s
}

type callErr struct {
	i     int
	wraps bool
}

func (e callErr) Error() string { return fmt.Sprintf("call %d failed", e.i) }
func (e callErr) Unwrap() error {
	if e.wraps {
		return context.Canceled
	}
	return nil
}

func (p Params) Body() func() {
	return func() {
		eff := p.P
		if eff <= 0 {
			eff = p.Procs
		}
		if eff > p.N {
			eff = p.N
		}
		calls := make([]int, p.N)
		active, maxActive, entered, exited := 0, 0, 0, 0
		cancelledAtEntry := 0
		returned := false
		callerCancelled := false
		failSet := map[int]bool{}
		for _, i := range p.Fail {
			failSet[i] = true
		}
		ctx, cancel := context.WithCancel(context.Background())
		if p.Ctx == "deadline" {
			ctx, cancel = context.WithTimeout(context.Background(), time.Millisecond)
		}
		defer cancel()
		if p.Ctx == "precancelled" {
			cancel()
			callerCancelled = true
		}
		// contexts handed to calls, with the event number of each call's exit (0 = still running) and
		// of the first exit of a failing call
		type handedCtx struct {
			ctx  context.Context
			i    int
			exit int
		}
		var handed []*handedCtx
		seq, firstFailExit := 0, 0
		body := func(fctx context.Context, i int) error {
			pre := fctx != nil && fctx.Err() != nil
			var h *handedCtx
			hx.Atomically(func() {
				if fctx != nil {
					h = &handedCtx{ctx: fctx, i: i}
					handed = append(handed, h)
				}
				if returned {
					hx.Fail("call-after-return", "f(%d) started after the function had returned", i)
				}
				calls[i]++
				entered++
				active++
				if active > maxActive {
					maxActive = active
				}
				if pre && !callerCancelled && ctx.Err() == nil {
					cancelledAtEntry++
				}
			})
			hx.Yield()
			if p.BlockOthers && fctx != nil && !failSet[i] {
				<-fctx.Done()
			}
			hx.Atomically(func() {
				active--
				exited++
				seq++
				if h != nil {
					h.exit = seq
				}
				if failSet[i] && firstFailExit == 0 {
					firstFailExit = seq
				}
			})
			if p.GoexitAt > 0 && i == p.GoexitAt {
				runtime.Goexit() // the call has finished; its worker is gone
			}
			if failSet[i] {
				return callErr{i, p.FailWrapsCanceled}
			}
			return nil
		}
		if p.Ctx == "midflight" {
			go func() {
				hx.Atomically(func() { callerCancelled = true })
				cancel()
			}()
		}
		var err error
		var out []int
		in := make([]int, p.N)
		for i := range in {
			in[i] = i
		}
		switch p.Variant {
		case "Do":
			parallel.Do(p.P, p.N, func(i int) { _ = body(nil, i) })
		case "DoContext":
			err = parallel.DoContext(ctx, p.P, p.N, body)
		case "Map":
			out = parallel.Map(p.P, in, func(x int) int { _ = body(nil, x); return 100 + x })
		case "MapContext":
			out, err = parallel.MapContext(ctx, p.P, in, func(c context.Context, x int) (int, error) { e := body(c, x); return 100 + x, e })
		}
		// barrier: evaluated in the same atomic step as the return
		hx.Atomically(func() {
			returned = true
			if active != 0 || entered != exited {
				hx.Fail("returned-before-calls-finished", "%s returned while %d started calls were still running", p.Variant, active)
			}
		})
		if maxActive > eff && !(eff == 0 && maxActive == 0) {
			hx.Fail("parallelism-exceeded", "%d calls ran at the same time, effective parallelism is %d", maxActive, eff)
		}
		for i, c := range calls {
			if c > 1 {
				hx.Fail("called-twice", "f(%d) was called %d times", i, c)
			}
		}
		noFailure := len(p.Fail) == 0 && (p.Ctx == "live" || p.Variant == "Do" || p.Variant == "Map")
		if noFailure {
			for i, c := range calls {
				if c != 1 {
					hx.Fail("not-exactly-once", "f(%d) was called %d times although nothing failed", i, c)
				}
			}
			if err != nil {
				hx.Fail("spurious-error", "returned %v although nothing failed", err)
			}
			if p.Variant == "Map" || p.Variant == "MapContext" {
				if len(out) != p.N {
					hx.Fail("map-result", "result has %d items, want %d", len(out), p.N)
				}
				for i, v := range out {
					if p.GoexitAt > 0 && i == p.GoexitAt {
						continue // that call never returned a value
					}
					if v != 100+i {
						hx.Fail("map-result", "out[%d]=%d, want %d", i, v, 100+i)
					}
				}
			}
		} else if p.Variant == "DoContext" || p.Variant == "MapContext" {
			// an error must be one that a call returned, or the caller's context error
			if err != nil {
				var ce callErr
				ok := false
				if errors.As(err, &ce) {
					ok = failSet[ce.i] && calls[ce.i] == 1 && err == error(ce)
				} else if callerCancelled && err == context.Canceled {
					ok = true
				} else if p.Ctx == "deadline" && err == ctx.Err() {
					ok = true // the caller's own context error (DeadlineExceeded)
				}
				if !ok {
					hx.Fail("foreign-error", "returned %v, which no call returned and is not the caller's context error", err)
				}
			} else {
				// nil means success: then every index was called (exactly once)
				for i, c := range calls {
					if c != 1 && len(p.Fail) == 0 {
						hx.Fail("nil-return-with-calls-missing", "%s returned nil although f(%d) was called %d times (caller context %s)", p.Variant, i, c, p.Ctx)
					}
				}
				// nil is only possible if no failing call ran
				for i := range failSet {
					if calls[i] > 0 {
						hx.Fail("error-swallowed", "f(%d) failed but the function returned nil", i)
					}
				}
				if p.Ctx == "live" {
					hx.Fail("error-swallowed", "a call must have failed, yet nil was returned")
				}
			}
			// "cancel the context handed to the others": once a call has failed and the function has
			// returned its error, no call holds a context that is still live
			// (required for the calls that were still running when the first failing call finished)
			if err != nil && firstFailExit > 0 {
				for _, h := range handed {
					if h.exit > firstFailExit && h.ctx.Err() == nil {
						hx.Fail("context-of-other-calls-not-cancelled", "%s returned %v; f(%d) was still running when the failing call finished, yet the context it was handed is still live", p.Variant, err, h.i)
					}
				}
			}
			if p.Variant == "MapContext" && err != nil && out != nil {
				hx.Fail("map-result-with-error", "MapContext returned both a result and %v", err)
			}
			if cancelledAtEntry > eff-1 && eff >= 1 {
				hx.Fail("too-many-calls-with-cancelled-context", "%d calls began with an already-cancelled context while the caller's context was live; at most parallelism-1 = %d allowed", cancelledAtEntry, eff-1)
			}
		}
		// nothing starts after the return
		hx.Quiesce()
		hx.Outcome("calls=%v err=%v maxActive=%d cancelledAtEntry=%d", calls, err, maxActive, cancelledAtEntry)
	}
}

func All() []Params {
	var out []Params
	for _, n := range []int{0, 1, 2, 3} {
		for _, p := range []int{-1, 1, 2, 3} {
			if n <= 1 && p > 1 {
				continue
			}
			out = append(out, Params{Variant: "Do", N: n, P: p, Ctx: "live", Procs: 2})
		}
	}
	out = append(out, Params{Variant: "Do", N: 4, P: 2, Ctx: "live", Procs: 2}, Params{Variant: "Do", N: 3, P: 0, Ctx: "live", Procs: 3})
	// n far above the parallelism (explored with few preemptions: the point is the hand-out of indices)
	out = append(out,
		Params{Variant: "Do", N: 33, P: 2, Ctx: "live", Procs: 2},
		Params{Variant: "Do", N: 49, P: 3, Ctx: "live", Procs: 2},
		Params{Variant: "DoContext", N: 33, P: 2, Ctx: "live", Procs: 2},
		Params{Variant: "Map", N: 17, P: -1, Ctx: "live", Procs: 2},
		Params{Variant: "Do", N: 5, P: 4, Ctx: "live", Procs: 2},
	)
	for _, n := range []int{2, 3} {
		for _, p := range []int{0, 2, 3} {
			fails := [][]int{nil, {0}, {n - 1}, {0, n - 1}}
			for _, f := range fails {
				out = append(out, Params{Variant: "DoContext", N: n, P: p, Fail: f, Ctx: "live", Procs: 2})
			}
		}
	}
	out = append(out,
		Params{Variant: "DoContext", N: 4, P: 2, Fail: []int{0}, Ctx: "live", Procs: 2},
		Params{Variant: "DoContext", N: 4, P: 2, Fail: []int{1, 2}, Ctx: "live", Procs: 2},
		Params{Variant: "DoContext", N: 3, P: 1, Fail: []int{1}, Ctx: "live", Procs: 2},
		Params{Variant: "DoContext", N: 2, P: 2, Ctx: "precancelled", Procs: 2},
		Params{Variant: "DoContext", N: 3, P: 2, Ctx: "midflight", Procs: 2},
		Params{Variant: "DoContext", N: 3, P: 2, Fail: []int{1}, Ctx: "midflight", Procs: 2},
		Params{Variant: "DoContext", N: 3, P: 2, Ctx: "deadline", Procs: 2},
		Params{Variant: "MapContext", N: 2, P: 2, Ctx: "deadline", Procs: 2},
		Params{Variant: "DoContext", N: 3, P: 2, Fail: []int{1}, Ctx: "live", Procs: 2, FailWrapsCanceled: true},
		Params{Variant: "MapContext", N: 2, P: 2, Fail: []int{0}, Ctx: "live", Procs: 2, FailWrapsCanceled: true},
		Params{Variant: "DoContext", N: 2, P: 1, Fail: []int{1}, Ctx: "live", Procs: 2, FailWrapsCanceled: true},
		// many indices and an early failure: the calls that begin afterwards with a cancelled context stay
		// within parallelism-1 however the indices are handed out
		Params{Variant: "DoContext", N: 400, P: 2, Fail: []int{0}, Ctx: "live", Procs: 2},
		Params{Variant: "DoContext", N: 48, P: 2, Fail: []int{0}, Ctx: "live", Procs: 2},
		Params{Variant: "DoContext", N: 64, P: 2, Fail: []int{1}, Ctx: "live", Procs: 2},
		Params{Variant: "MapContext", N: 400, P: 3, Fail: []int{1}, Ctx: "live", Procs: 2},
		// the other calls run until they are cancelled
		Params{Variant: "DoContext", N: 2, P: 2, Fail: []int{0}, Ctx: "live", Procs: 2, BlockOthers: true},
		Params{Variant: "DoContext", N: 3, P: 2, Fail: []int{0}, Ctx: "live", Procs: 2, BlockOthers: true},
		Params{Variant: "MapContext", N: 3, P: 3, Fail: []int{1}, Ctx: "live", Procs: 2, BlockOthers: true},
		// a call that ends its goroutine: the function still returns, the other indices are still served
		Params{Variant: "Do", N: 3, P: 2, Ctx: "live", Procs: 2, GoexitAt: 1},
		Params{Variant: "Map", N: 4, P: 3, Ctx: "live", Procs: 2, GoexitAt: 2},
		// more indices than any fixed-size queue of them would hold
		Params{Variant: "Do", N: 1100, P: 2, Ctx: "live", Procs: 2},
		Params{Variant: "DoContext", N: 1100, P: 3, Ctx: "live", Procs: 2},
		// thousands of indices, not a multiple of anything a hand-out in blocks would use: the last ones are served too
		Params{Variant: "Do", N: 2051, P: 3, Ctx: "live", Procs: 2},
		Params{Variant: "Map", N: 5003, P: 4, Ctx: "live", Procs: 2},
		Params{Variant: "DoContext", N: 2053, P: 2, Ctx: "live", Procs: 2},
		Params{Variant: "MapContext", N: 4099, P: 3, Ctx: "live", Procs: 2},
		Params{Variant: "Map", N: 3, P: 2, Ctx: "live", Procs: 2},
		Params{Variant: "Map", N: 2, P: 0, Ctx: "live", Procs: 3},
		Params{Variant: "MapContext", N: 3, P: 2, Ctx: "live", Procs: 2},
		Params{Variant: "MapContext", N: 3, P: 2, Fail: []int{1}, Ctx: "live", Procs: 2},
		Params{Variant: "MapContext", N: 3, P: 3, Fail: []int{0, 2}, Ctx: "live", Procs: 2},
	)
	return out
}
