// Package scn holds the scenario bodies for C01's last sentence: Puts from several goroutines to
// distinct keys that are already present, concurrent with reads of other keys, all take effect.
// The comparator contains a scheduling point, so interleavings are explored at comparator
// granularity.
package scn

import (
	"fmt"
	"sync"

	"github.com/bradenaw/juniper/container/tree"

	"verif/mc/hx"
)

type Scenario struct {
	Name string
	Body func()
}

func puts(n int, cmpCtor bool, writers [][2]int, readers []int) Scenario {
	return Scenario{fmt.Sprintf("treePut/keys=%d/cmp=%v/writers=%v/readers=%v", n, cmpCtor, writers, readers), func() {
		live := false
		cmp := func(a, b int) int {
			if live {
				hx.Yield()
			}
			return a - b
		}
		var m tree.Map[int, int]
		if cmpCtor {
			m = tree.NewMapCmp[int, int](cmp)
		} else {
			m = tree.NewMap[int, int](func(a, b int) bool { return cmp(a, b) < 0 })
		}
		for k := 1; k <= n; k++ {
			m.Put(k, 100+k)
		}
		live = true
		var wg sync.WaitGroup
		// writers[i] = (key, number of puts)
		for wi, w := range writers {
			wi, w := wi, w
			wg.Add(1)
			go func() {
				defer wg.Done()
				for j := 1; j <= w[1]; j++ {
					m.Put(w[0], 1000*(wi+1)+j)
				}
			}()
		}
		for _, k := range readers {
			k := k
			wg.Add(1)
			go func() {
				defer wg.Done()
				if v := m.Get(k); v != 100+k {
					hx.Fail("read-of-other-key-disturbed", "Get(%d) = %d while other keys were being overwritten, want %d", k, v, 100+k)
				}
				if !m.Contains(k) {
					hx.Fail("read-of-other-key-disturbed", "Contains(%d) = false while other keys were being overwritten", k)
				}
			}()
		}
		wg.Wait()
		live = false
		want := map[int]int{}
		for k := 1; k <= n; k++ {
			want[k] = 100 + k
		}
		for wi, w := range writers {
			want[w[0]] = 1000*(wi+1) + w[1]
		}
		if m.Len() != n {
			hx.Fail("put-lost-or-structure-changed", "Len() = %d after overwriting present keys, want %d", m.Len(), n)
		}
		it := m.Iterate()
		cnt := 0
		for {
			kv, ok := it.Next()
			if !ok {
				break
			}
			cnt++
			if want[kv.Key] != kv.Value {
				hx.Fail("put-lost", "key %d holds %d after all writers finished, want %d", kv.Key, kv.Value, want[kv.Key])
			}
		}
		if cnt != n {
			hx.Fail("put-lost-or-structure-changed", "iteration yields %d entries, want %d", cnt, n)
		}
		hx.Outcome("ok")
	}}
}

func All() []Scenario {
	return []Scenario{
		puts(20, true, [][2]int{{3, 2}, {17, 1}}, []int{5}),
		puts(20, false, [][2]int{{3, 1}, {16, 1}}, []int{9}),
		puts(40, true, [][2]int{{1, 1}, {16, 1}, {40, 1}}, nil),
		puts(20, true, [][2]int{{10, 2}}, []int{9, 11}),
	}
}
