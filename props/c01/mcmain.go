//go:build mcbuild

// C01, concurrent clause. Engine E2.
package main

import (
	"time"

	"verif/mc/mcx"
	"verif/props/c01/scn"
)

func main() {
	var scs []mcx.Scenario
	for _, s := range scn.All() {
		scs = append(scs, mcx.Scenario{Name: s.Name, Body: s.Body, Bound: 2, ThoroughBound: 3, SwitchBound: 3, Family: "treePut", MaxTime: 2 * time.Minute})
	}
	mcx.Main("C01", scs, []string{"the comparator contains a scheduling point: interleavings of concurrent Puts and reads are explored at comparator granularity"})
}
