//go:build !mcbuild

// C01, free-running -race side pass over the same scenario bodies (sampling: a side condition for
// the controlled scheduler's atomic-step assumption, and the direct observation of "free of data
// races"). Built with -race; a race report makes the process exit with status 66.
package main

import (
	"fmt"
	"os"
	"strconv"

	"verif/internal/vx"
	"verif/mc/hx"
	"verif/props/c01/scn"
)

func main() {
	run := vx.Start("C01")
	n := 300
	if s := os.Getenv("RACE_ITERS"); s != "" {
		n, _ = strconv.Atoi(s)
	}
	iters := 0
	for _, s := range scn.All() {
		for i := 0; i < n; i++ {
			hx.Reset()
			done := make(chan struct{})
			go func() { defer close(done); s.Body() }()
			<-done
			_, fails := hx.Result()
			iters++
			if len(fails) > 0 {
				run.Violate(vx.Violation{Signature: "treePut/free-running/" + fails[0], Detail: fmt.Sprintf("%s (free-running execution %d): %v", s.Name, i, fails), Replay: map[string]any{"scenario": s.Name}})
				break
			}
		}
	}
	run.AddCounts(int64(iters), int64(iters), int64(iters))
	run.Set("race_pass", map[string]any{"executions": iters, "race_detector": "enabled (-race); a report exits with status 66", "kind": "sampling, free-running"})
	run.Sample("free-running execution of " + scn.All()[0].Name)
	run.Finish()
}
