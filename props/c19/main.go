//go:build verif

// C19: pure helpers (xslices, xsort, xmaps, xmath, xerrors, xmath/xrand) match their specification.
//
// Engine E1, input enumeration: every slice over a 3-symbol alphabet up to a length bound, every
// index/count argument in [-2, len+2] where the documentation defines the result, every predicate
// truth table / equivalence / order-with-ties on the alphabet, capacity variants, every subset of a
// small universe for the set algebra, every integer width with the extreme values, error chains of
// depth <= 3, and for the samplers every (n, k, seed) in a box plus the exact subset distribution
// under a discretised random source.
package main

import (
	"context"
	"errors"
	"fmt"
	"math"
	"math/rand"
	"sort"
	"strings"
	"sync/atomic"

	"github.com/bradenaw/juniper/iterator"
	"github.com/bradenaw/juniper/stream"
	"github.com/bradenaw/juniper/xerrors"
	"github.com/bradenaw/juniper/xmaps"
	"github.com/bradenaw/juniper/xmath"
	"github.com/bradenaw/juniper/xmath/xrand"
	"github.com/bradenaw/juniper/xslices"
	"github.com/bradenaw/juniper/xsort"

	"verif/internal/vx"
)

var cases int64
var run *vx.Run

func fail(sig, format string, a ...any) {
	run.Violate(vx.Violation{Signature: sig, Detail: fmt.Sprintf(format, a...), Replay: map[string]any{"case": fmt.Sprintf(format, a...)}})
}

// try runs f; returns the panic value if any.
func try(f func()) any { return vx.Catch(f) }

func eq(a, b []int) bool {
	if len(a) != len(b) {
		return false
	}
	for i := range a {
		if a[i] != b[i] {
			return false
		}
	}
	return true
}

func clone(s []int) []int { return append([]int(nil), s...) }

// withCap returns a copy of s with the given extra capacity.
func withCap(s []int, extra int) []int {
	out := make([]int, len(s), len(s)+extra)
	copy(out, s)
	return out
}

func sorted(s []int) []int { c := clone(s); sort.Ints(c); return c }

func seqs(alpha, maxLen int) [][]int {
	out := [][]int{{}}
	prev := [][]int{{}}
	for l := 1; l <= maxLen; l++ {
		var cur [][]int
		for _, p := range prev {
			for a := 0; a < alpha; a++ {
				cur = append(cur, append(append([]int{}, p...), a))
			}
		}
		out = append(out, cur...)
		prev = cur
	}
	return out
}

func pred(t int) func(int) bool { return func(x int) bool { return t>>uint(x%3)&1 == 1 } }

func checkXslices(s []int) {
	atomic.AddInt64(&cases, 1)
	n := len(s)
	// values are 1..3 inside the slices handed to in-place functions so that zeroed slots are visible
	for t := 0; t < 8; t++ {
		p := pred(t)
		var kept, idxs []int
		for i, x := range s {
			if p(x) {
				kept = append(kept, x)
				idxs = append(idxs, i)
			}
		}
		if got := xslices.All(s, p); got != (len(kept) == n) {
			fail("xslices/All", "All(%v, table %03b) = %v", s, t, got)
		}
		if got := xslices.Any(s, p); got != (len(kept) > 0) {
			fail("xslices/Any", "Any(%v, table %03b) = %v", s, t, got)
		}
		if got := xslices.CountFunc(s, p); got != len(kept) {
			fail("xslices/CountFunc", "CountFunc(%v, table %03b) = %d", s, t, got)
		}
		orig := clone(s)
		if got := xslices.Filter(s, p); !eq(got, kept) || !eq(s, orig) {
			fail("xslices/Filter", "Filter(%v, table %03b) = %v (input afterwards %v)", orig, t, got, s)
		}
		c := clone(s)
		if got := xslices.FilterInPlace(c, p); !eq(got, kept) || (len(got) > 0 && &got[0] != &c[0]) {
			fail("xslices/FilterInPlace", "FilterInPlace(%v, table %03b) = %v (must be the kept items, as a prefix of the input's array)", s, t, got)
		}
		wi, wl := -1, -1
		if len(idxs) > 0 {
			wi, wl = idxs[0], idxs[len(idxs)-1]
		}
		if got := xslices.IndexFunc(s, p); got != wi {
			fail("xslices/IndexFunc", "IndexFunc(%v, table %03b) = %d", s, t, got)
		}
		if got := xslices.LastIndexFunc(s, p); got != wl {
			fail("xslices/LastIndexFunc", "LastIndexFunc(%v, table %03b) = %d", s, t, got)
		}
		// Partition
		c = clone(s)
		var i int
		if pp := try(func() { i = xslices.Partition(c, p) }); pp != nil {
			fail("xslices/Partition", "Partition(%v, table %03b) panicked: %v", s, t, pp)
		} else {
			ok := i >= 0 && i <= n && eq(sorted(c), sorted(s))
			for j := 0; ok && j < n; j++ {
				if p(c[j]) != (j >= i) {
					ok = false
				}
			}
			if !ok {
				fail("xslices/Partition", "Partition(%v, table %03b) returned %d and left %v: want all-false before the index, all-true from it, a permutation of the input", s, t, i, c)
			}
		}
	}
	for x := 0; x < 3; x++ {
		cnt, first, last := 0, -1, -1
		for i, y := range s {
			if y == x {
				cnt++
				if first < 0 {
					first = i
				}
				last = i
			}
		}
		if xslices.Count(s, x) != cnt || xslices.Index(s, x) != first || xslices.LastIndex(s, x) != last {
			fail("xslices/CountIndex", "Count/Index/LastIndex(%v, %d) = %d/%d/%d", s, x, xslices.Count(s, x), xslices.Index(s, x), xslices.LastIndex(s, x))
		}
	}
	// Chunk: documented panic for chunkSize <= 0
	for k := -3; k <= n+2; k++ {
		var got [][]int
		pp := try(func() { got = xslices.Chunk(s, k) })
		if k <= 0 {
			if pp == nil {
				fail("xslices/Chunk-no-panic", "Chunk(%v, %d) returned %v instead of panicking (documented: panics if chunkSize <= 0)", s, k, got)
			}
			continue
		}
		if pp != nil {
			fail("xslices/Chunk", "Chunk(%v, %d) panicked: %v", s, k, pp)
			continue
		}
		var flat []int
		ok := len(got) == (n+k-1)/k
		for i, c := range got {
			flat = append(flat, c...)
			if len(c) != k && !(i == len(got)-1 && len(c) > 0 && len(c) < k) {
				ok = false
			}
		}
		if !ok || !eq(flat, s) || got == nil {
			fail("xslices/Chunk", "Chunk(%v, %d) = %v", s, k, got)
		}
	}
	// Clear / Fill / Clone / Reverse / Repeat / Map / Reduce / Join / Group
	c := clone(s)
	xslices.Fill(c, 7)
	for _, x := range c {
		if x != 7 {
			fail("xslices/Fill", "Fill(%v,7) left %v", s, c)
		}
	}
	xslices.Clear(c)
	for _, x := range c {
		if x != 0 {
			fail("xslices/Clear", "Clear left %v", c)
		}
	}
	if got := xslices.Clone(s); !eq(got, s) || (n > 0 && &got[0] == &s[0]) {
		fail("xslices/Clone", "Clone(%v) = %v (or shares the array)", s, got)
	}
	c = clone(s)
	xslices.Reverse(c)
	for i := range c {
		if c[i] != s[n-1-i] {
			fail("xslices/Reverse", "Reverse(%v) = %v", s, c)
			break
		}
	}
	g := xslices.Group(s, func(x int) int { return x % 2 })
	var g0, g1 []int
	for _, x := range s {
		if x%2 == 0 {
			g0 = append(g0, x)
		} else {
			g1 = append(g1, x)
		}
	}
	if !eq(g[0], g0) || !eq(g[1], g1) || len(g) != b2i(len(g0) > 0)+b2i(len(g1) > 0) {
		fail("xslices/Group", "Group(%v, x%%2) = %v", s, g)
	}
	// Compact family
	var comp []int
	for i, x := range s {
		if i == 0 || x != s[i-1] {
			comp = append(comp, x)
		}
	}
	orig := clone(s)
	if got := xslices.Compact(s); !eq(got, comp) || !eq(s, orig) {
		fail("xslices/Compact", "Compact(%v) = %v", orig, got)
	}
	c = clone(s)
	if got := xslices.CompactInPlace(c); !eq(got, comp) || (len(got) > 0 && &got[0] != &c[0]) {
		fail("xslices/CompactInPlace", "CompactInPlace(%v) = %v", s, got)
	}
	same := func(a, b int) bool { return a%2 == b%2 }
	var compf []int
	for _, x := range s {
		if len(compf) == 0 || !same(compf[len(compf)-1], x) {
			compf = append(compf, x)
		}
	}
	if got := xslices.CompactFunc(s, same); !eq(got, compf) || !eq(s, orig) {
		fail("xslices/CompactFunc", "CompactFunc(%v, parity) = %v", orig, got)
	}
	c = clone(s)
	if got := xslices.CompactInPlaceFunc(c, same); !eq(got, compf) || (len(got) > 0 && &got[0] != &c[0]) {
		fail("xslices/CompactInPlaceFunc", "CompactInPlaceFunc(%v, parity) = %v", s, got)
	}
	// Runs: contiguous runs, sharing the array
	for _, sm := range []func(a, b int) bool{func(a, b int) bool { return a == b }, same, func(a, b int) bool { return true }} {
		var want [][]int
		for i, x := range s {
			if i == 0 || !sm(want[len(want)-1][0], x) {
				want = append(want, []int{x})
			} else {
				want[len(want)-1] = append(want[len(want)-1], x)
			}
		}
		got := xslices.Runs(s, sm)
		ok := len(got) == len(want)
		for i := 0; ok && i < len(got); i++ {
			ok = eq(got[i], want[i])
		}
		if !ok {
			fail("xslices/Runs", "Runs(%v) = %v, want %v", s, got, want)
		} else if n > 0 && &got[0][0] != &s[0] {
			fail("xslices/Runs-aliasing", "Runs(%v) does not use the input's array", s)
		}
	}
	// Unique / UniqueInPlace
	var uniq []int
	seen := map[int]bool{}
	for _, x := range s {
		if !seen[x] {
			seen[x] = true
			uniq = append(uniq, x)
		}
	}
	if got := xslices.Unique(s); !eq(got, uniq) || !eq(s, orig) {
		fail("xslices/Unique", "Unique(%v) = %v", orig, got)
	}
	c = clone(s)
	if got := xslices.UniqueInPlace(c); !eq(got, uniq) || (len(got) > 0 && &got[0] != &c[0]) {
		fail("xslices/UniqueInPlace", "UniqueInPlace(%v) = %v", s, got)
	}
	// Insert / Remove / RemoveUnordered for every valid index and count, with and without spare capacity
	for _, extra := range []int{0, 3} {
		for idx := 0; idx <= n; idx++ {
			for _, vals := range [][]int{{}, {8}, {8, 9}} {
				c := withCap(s, extra)
				want := append(append(clone(s[:idx]), vals...), s[idx:]...)
				var got []int
				if pp := try(func() { got = xslices.Insert(c, idx, vals...) }); pp != nil || !eq(got, want) {
					fail("xslices/Insert", "Insert(%v (cap +%d), %d, %v) = %v (panic %v)", s, extra, idx, vals, got, pp)
				}
			}
			// the inserted values alias the slice itself (any sub-slice of it)
			for a := 0; a <= n; a++ {
				for b := a; b <= n && b-a <= 2; b++ {
					c := withCap(s, extra)
					want := append(append(clone(s[:idx]), s[a:b]...), s[idx:]...)
					var got []int
					if pp := try(func() { got = xslices.Insert(c, idx, c[a:b]...) }); pp != nil || !eq(got, want) {
						fail("xslices/Insert", "Insert(s=%v (cap +%d), %d, s[%d:%d]...) = %v (panic %v), want %v", s, extra, idx, a, b, got, pp, want)
					}
				}
			}
			for cnt := 0; idx+cnt <= n; cnt++ {
				want := append(clone(s[:idx]), s[idx+cnt:]...)
				c := withCap(s, extra)
				var got []int
				if pp := try(func() { got = xslices.Remove(c, idx, cnt) }); pp != nil || !eq(got, want) {
					fail("xslices/Remove", "Remove(%v, %d, %d) = %v (panic %v)", s, idx, cnt, got, pp)
				}
				c = withCap(s, extra)
				if pp := try(func() { got = xslices.RemoveUnordered(c, idx, cnt) }); pp != nil || len(got) != n-cnt || !eq(sorted(got), sorted(want)) || !eq(got[:idx], s[:idx]) || (len(got) > 0 && &got[0] != &c[0]) {
					fail("xslices/RemoveUnordered", "RemoveUnordered(%v, %d, %d) = %v (panic %v): want the other %d items (any order after index %d), in the input's array", s, idx, cnt, got, pp, n-cnt, idx)
				}
			}
		}
		// Grow / Shrink
		for k := 0; k <= 3; k++ {
			c := withCap(s, extra)
			got := xslices.Grow(c, k)
			if !eq(got, s) || cap(got)-len(got) < k {
				fail("xslices/Grow", "Grow(%v (cap +%d), %d) = %v cap %d", s, extra, k, got, cap(got))
			}
			c = withCap(s, extra)
			got = xslices.Shrink(c, k)
			if !eq(got, s) || cap(got) > len(got)+k {
				fail("xslices/Shrink", "Shrink(%v (cap +%d), %d) = %v cap %d: want cap <= len+%d", s, extra, k, got, cap(got), k)
			}
		}
	}
	{
		want := 0
		for _, x := range s {
			want = want*7 + x + 1
		}
		if got := xslices.Reduce(s, 0, func(acc, x int) int { return acc*7 + x + 1 }); got != want || !eq(s, orig) {
			fail("xslices/Reduce", "Reduce(%v) = %d, want %d (left to right from the initial value)", orig, got, want)
		}
	}
	if got := xslices.Repeat(5, n); len(got) != n || xslices.Count(got, 5) != n {
		fail("xslices/Repeat", "Repeat(5,%d) = %v", n, got)
	}
	if got := xslices.Map(s, func(x int) int { return x * 2 }); len(got) != n || (n > 0 && got[n-1] != s[n-1]*2) {
		fail("xslices/Map", "Map(%v) = %v", s, got)
	}
}

func b2i(b bool) int {
	if b {
		return 1
	}
	return 0
}

func checkPairs(a, b []int) {
	atomic.AddInt64(&cases, 1)
	if xslices.Equal(a, b) != eq(a, b) {
		fail("xslices/Equal", "Equal(%v,%v)", a, b)
	}
	par := len(a) == len(b)
	for i := 0; par && i < len(a); i++ {
		par = a[i]%2 == b[i]%2
	}
	if xslices.EqualFunc(a, b, func(x, y int) bool { return x%2 == y%2 }) != par {
		fail("xslices/EqualFunc", "EqualFunc(%v,%v,parity)", a, b)
	}
	want := append(clone(a), b...)
	if got := xslices.Join(a, b); !eq(got, want) {
		fail("xslices/Join", "Join(%v,%v) = %v", a, b, got)
	}
	if got := xslices.Join(a, nil, b, []int{}); !eq(got, want) {
		fail("xslices/Join", "Join(%v,nil,%v,[]) = %v", a, b, got)
	}
	if got := xslices.Join[int](); len(got) != 0 {
		fail("xslices/Join", "Join() = %v", got)
	}
}

// rank tables give every order with ties on the alphabet
func checkXsort(s []int, rank [3]int) {
	atomic.AddInt64(&cases, 1)
	less := func(a, b int) bool { return rank[a%3] < rank[b%3] }
	isSorted := func(x []int) bool {
		for i := 1; i < len(x); i++ {
			if less(x[i], x[i-1]) {
				return false
			}
		}
		return true
	}
	ranks := func(x []int) []int {
		var r []int
		for _, v := range x {
			r = append(r, rank[v%3])
		}
		sort.Ints(r)
		return r
	}
	if xsort.SliceIsSorted(s, less) != isSorted(s) {
		fail("xsort/SliceIsSorted", "SliceIsSorted(%v, ranks %v)", s, rank)
	}
	c := clone(s)
	xsort.Slice(c, less)
	if !isSorted(c) || !eq(sorted(c), sorted(s)) {
		fail("xsort/Slice", "Slice(%v, ranks %v) = %v", s, rank, c)
	}
	// stable: tag items with their position
	type tv struct{ v, pos int }
	var tagged []tv
	for i, v := range s {
		tagged = append(tagged, tv{v, i})
	}
	xsort.SliceStable(tagged, func(a, b tv) bool { return less(a.v, b.v) })
	for i := 1; i < len(tagged); i++ {
		if less(tagged[i].v, tagged[i-1].v) || (!less(tagged[i-1].v, tagged[i].v) && tagged[i].pos < tagged[i-1].pos) {
			fail("xsort/SliceStable", "SliceStable(%v, ranks %v) = %v", s, rank, tagged)
			break
		}
	}
	// helpers
	for a := 0; a < 3; a++ {
		for b := 0; b < 3; b++ {
			if xsort.Greater(less, a, b) != less(b, a) || xsort.LessOrEqual(less, a, b) != !less(b, a) || xsort.GreaterOrEqual(less, a, b) != !less(a, b) ||
				xsort.Equal(less, a, b) != (rank[a] == rank[b]) || xsort.Reverse(less)(a, b) != less(b, a) {
				fail("xsort/comparisons", "Greater/LessOrEqual/GreaterOrEqual/Equal/Reverse(%d,%d) under ranks %v", a, b, rank)
			}
			cv := xsort.LessCompare(less)(a, b)
			if (cv < 0) != less(a, b) || (cv > 0) != less(b, a) {
				fail("xsort/LessCompare", "LessCompare(%d,%d) = %d under ranks %v", a, b, cv, rank)
			}
		}
	}
	if isSorted(s) {
		// Search: lower bound
		for item := 0; item < 3; item++ {
			i := xsort.Search(s, less, item)
			ok := i >= 0 && i <= len(s)
			for j := 0; ok && j < len(s); j++ {
				if j < i && !less(s[j], item) {
					ok = false
				}
				if j >= i && less(s[j], item) {
					ok = false
				}
			}
			if !ok {
				fail("xsort/Search", "Search(%v, ranks %v, %d) = %d: want the first index whose element is not less than the item", s, rank, item, i)
			}
		}
	}
	// MinK
	for k := 0; k <= len(s)+1; k++ {
		var got []int
		if pp := try(func() { got = xsort.MinK(less, iterator.Slice(s), k) }); pp != nil {
			fail("xsort/MinK", "MinK(%v, %d) panicked: %v", s, k, pp)
			continue
		}
		all := ranks(s)
		want := all
		if k < len(all) {
			want = all[:k]
		}
		if !isSorted(got) || !eq(ranks(got), want) {
			fail("xsort/MinK", "MinK(ranks %v, %v, %d) = %v: want the %d smallest in sorted order", rank, s, k, got, k)
		}
	}
}

func checkMerge(parts [][]int, rank [3]int) {
	atomic.AddInt64(&cases, 1)
	less := func(a, b int) bool { return rank[a%3] < rank[b%3] }
	var all []int
	var sortedParts [][]int
	for _, p := range parts {
		c := clone(p)
		sort.SliceStable(c, func(i, j int) bool { return less(c[i], c[j]) })
		sortedParts = append(sortedParts, c)
		all = append(all, c...)
	}
	check := func(what string, got []int) {
		ok := len(got) == len(all) && eq(sorted(got), sorted(all))
		for i := 1; ok && i < len(got); i++ {
			if less(got[i], got[i-1]) {
				ok = false
			}
		}
		if !ok {
			fail("xsort/"+what, "%s(ranks %v, %v) = %v: want a sorted permutation of all items", what, rank, sortedParts, got)
		}
	}
	var its []iterator.Iterator[int]
	for _, p := range sortedParts {
		its = append(its, iterator.Slice(p))
	}
	var got []int
	if pp := try(func() { got = iterator.Collect(xsort.Merge(less, its...)) }); pp != nil {
		fail("xsort/Merge", "Merge(%v) panicked: %v", sortedParts, pp)
	} else {
		check("Merge", got)
	}
	for _, out := range [][]int{nil, {}, {7, 7}, make([]int, 1, 16)} {
		var got []int
		if pp := try(func() { got = xsort.MergeSlices(less, out, sortedParts...) }); pp != nil {
			fail("xsort/MergeSlices", "MergeSlices(out len %d cap %d, %v) panicked: %v", len(out), cap(out), sortedParts, pp)
		} else {
			check("MergeSlices", got)
		}
	}
}

func subsets(u int) []xmaps.Set[int] {
	var out []xmaps.Set[int]
	for m := 0; m < 1<<uint(u); m++ {
		s := xmaps.Set[int]{}
		for i := 0; i < u; i++ {
			if m>>uint(i)&1 == 1 {
				s.Add(i)
			}
		}
		out = append(out, s)
	}
	return out
}

func mask(s xmaps.Set[int]) int {
	m := 0
	for k := range s {
		m |= 1 << uint(k)
	}
	return m
}

func checkXmaps() {
	// Set methods against a plain map
	for _, a := range subsets(4) {
		for x := 0; x < 5; x++ {
			atomic.AddInt64(&cases, 1)
			_, in := a[x]
			if a.Contains(x) != in {
				fail("xmaps/Set.Contains", "%v.Contains(%d) = %v", a, x, a.Contains(x))
			}
			b := xmaps.Set[int]{}
			for k := range a {
				b.Add(k)
			}
			b.Add(x)
			if !b.Contains(x) || len(b) != len(a)+map[bool]int{true: 0, false: 1}[in] {
				fail("xmaps/Set.Add", "%v after Add(%d) = %v", a, x, b)
			}
			b.Remove(x)
			b.Remove(x) // removing an absent item is a no-op
			if b.Contains(x) || len(b) != len(a)-map[bool]int{true: 1, false: 0}[in] {
				fail("xmaps/Set.Remove", "%v after Add(%d), Remove(%d) = %v", a, x, x, b)
			}
			for k := range a {
				if k != x && !b.Contains(k) {
					fail("xmaps/Set.Remove", "Remove(%d) also removed %d from %v", x, k, a)
				}
			}
		}
	}
	subs := subsets(4)
	for _, a := range subs {
		for _, b := range subs {
			atomic.AddInt64(&cases, 1)
			ma, mb := mask(a), mask(b)
			if got := mask(xmaps.Union(a, b)); got != ma|mb {
				fail("xmaps/Union", "Union(%v,%v) = %b", a, b, got)
			}
			if got := mask(xmaps.Intersection(a, b)); got != ma&mb {
				fail("xmaps/Intersection", "Intersection(%v,%v) = %b", a, b, got)
			}
			if got := xmaps.Intersects(a, b); got != (ma&mb != 0) {
				fail("xmaps/Intersects", "Intersects(%v,%v) = %v", a, b, got)
			}
			if got := mask(xmaps.Difference(a, b)); got != ma&^mb {
				fail("xmaps/Difference", "Difference(%v,%v) = %b, want %b", a, b, got, ma&^mb)
			}
			for _, c := range subs[:8] {
				mc := mask(c)
				if got := mask(xmaps.Union(a, b, c)); got != ma|mb|mc {
					fail("xmaps/Union", "Union(%v,%v,%v) = %b", a, b, c, got)
				}
				if got := mask(xmaps.Intersection(c, a, b)); got != ma&mb&mc {
					fail("xmaps/Intersection", "Intersection(%v,%v,%v) = %b", c, a, b, got)
				}
				// pure: neither the sets nor the caller's slice of sets are changed
				sets := []xmaps.Set[int]{c, a, b}
				lens := []int{len(c), len(a), len(b)}
				_ = xmaps.Intersection(sets...)
				_ = xmaps.Union(sets...)
				_ = xmaps.Intersects(sets...)
				for i, x := range []xmaps.Set[int]{c, a, b} {
					if len(sets[i]) != lens[i] || mask(sets[i]) != mask(x) {
						fail("xmaps/argument-changed", "after Intersection/Union/Intersects(sets...) the caller's slice holds %v at position %d, it held %v", sets[i], i, x)
					}
				}
				if got := xmaps.Intersects(a, c, b); got != (ma&mb&mc != 0) {
					fail("xmaps/Intersects", "Intersects(%v,%v,%v) = %v", a, c, b, got)
				}
			}
		}
		if mask(xmaps.Union(a)) != mask(a) || mask(xmaps.Intersection(a)) != mask(a) || xmaps.Intersects(a) != (len(a) > 0) {
			fail("xmaps/single-set", "Union/Intersection/Intersects of the single set %v", a)
		}
		var items []int
		for k := range a {
			items = append(items, k, k)
		}
		if mask(xmaps.SetFromSlice(items)) != mask(a) {
			fail("xmaps/SetFromSlice", "SetFromSlice(%v)", items)
		}
		c := xmaps.Set[int]{}
		for k := range a {
			c.Add(k)
		}
		for k := 0; k < 4; k++ {
			if c.Contains(k) != (mask(a)>>uint(k)&1 == 1) {
				fail("xmaps/Set", "Contains(%d) on %v", k, c)
			}
		}
		c.Remove(0)
		if c.Contains(0) {
			fail("xmaps/Set", "Remove(0) left 0 in the set")
		}
	}
	if len(xmaps.Union[xmaps.Set[int]]()) != 0 || len(xmaps.Intersection[xmaps.Set[int]]()) != 0 || xmaps.Intersects[xmaps.Set[int]]() {
		fail("xmaps/zero-sets", "Union/Intersection/Intersects of zero sets")
	}
	// maps: all key->value maps over 3 keys and 2 values
	for _, vals := range seqs(3, 3) {
		atomic.AddInt64(&cases, 1)
		m := map[int]int{}
		for k, v := range vals {
			if v < 2 {
				m[k] = v
			}
		}
		rev := xmaps.Reverse(m)
		cnt := 0
		for v, ks := range rev {
			for _, k := range ks {
				cnt++
				if mv, ok := m[k]; !ok || mv != v {
					fail("xmaps/Reverse", "Reverse(%v) = %v", m, rev)
				}
			}
		}
		if cnt != len(m) {
			fail("xmaps/Reverse", "Reverse(%v) = %v", m, rev)
		}
		rs, ok := xmaps.ReverseSingle(m)
		dup := len(rev) != len(m)
		if ok == dup || len(rs) != len(rev) {
			fail("xmaps/ReverseSingle", "ReverseSingle(%v) = %v, %v", m, rs, ok)
		}
		for v, k := range rs {
			if m[k] != v {
				fail("xmaps/ReverseSingle", "ReverseSingle(%v) = %v", m, rs)
			}
		}
		keys := vals
		idx := xmaps.ToIndex(keys)
		for k, i := range idx {
			if i < 0 || i >= len(keys) || keys[i] != k {
				fail("xmaps/ToIndex", "ToIndex(%v) = %v", keys, idx)
			}
		}
		if len(idx) != len(xslices.Unique(keys)) {
			fail("xmaps/ToIndex", "ToIndex(%v) = %v", keys, idx)
		}
		values := make([]int, len(keys))
		for i := range values {
			values[i] = 10 + i
		}
		kv, ok2 := xmaps.FromKeysAndValues(keys, values)
		if ok2 != (len(idx) == len(keys)) || len(kv) != len(idx) {
			fail("xmaps/FromKeysAndValues", "FromKeysAndValues(%v,%v) = %v, %v", keys, values, kv, ok2)
		}
		for k, v := range kv {
			if v-10 < 0 || v-10 >= len(keys) || keys[v-10] != k {
				fail("xmaps/FromKeysAndValues", "FromKeysAndValues(%v,%v) = %v", keys, values, kv)
			}
		}
		if try(func() { xmaps.FromKeysAndValues(keys, append(values, 1)) }) == nil {
			fail("xmaps/FromKeysAndValues-no-panic", "FromKeysAndValues with different lengths did not panic")
		}
	}
}

func checkAbs[T ~int | ~int8 | ~int16 | ~int32 | ~int64](name string, min, max T) {
	atomic.AddInt64(&cases, 1)
	for _, x := range []T{min, min + 1, -1, 0, 1, max, max - 1, -2, 2} {
		var got T
		pp := try(func() { got = xmath.Abs(x) })
		if x == min {
			if pp == nil {
				fail("xmath/Abs-no-panic", "Abs[%s](min) returned %v instead of panicking", name, got)
			}
			continue
		}
		want := x
		if x < 0 {
			want = -x
		}
		if pp != nil || got != want {
			fail("xmath/Abs", "Abs[%s](%v) = %v (panic %v)", name, x, got, pp)
		}
	}
}

func checkXmath() {
	checkAbs[int8]("int8", math.MinInt8, math.MaxInt8)
	checkAbs[int16]("int16", math.MinInt16, math.MaxInt16)
	checkAbs[int32]("int32", math.MinInt32, math.MaxInt32)
	checkAbs[int64]("int64", math.MinInt64, math.MaxInt64)
	checkAbs[int]("int", math.MinInt, math.MaxInt)
	for i := math.MinInt8; i <= math.MaxInt8; i++ {
		x := int8(i)
		if x != math.MinInt8 {
			w := x
			if w < 0 {
				w = -w
			}
			if xmath.Abs(x) != w {
				fail("xmath/Abs", "Abs[int8](%d)", x)
			}
		}
	}
	vals := []int{math.MinInt, -2, -1, 0, 1, 2, math.MaxInt}
	for _, x := range vals {
		for _, lo := range vals {
			if (xmath.Min(x, lo) != x && xmath.Min(x, lo) != lo) || xmath.Min(x, lo) > x || xmath.Min(x, lo) > lo || xmath.Max(x, lo) < x || xmath.Max(x, lo) < lo {
				fail("xmath/MinMax", "Min/Max(%d,%d)", x, lo)
			}
			for _, hi := range vals {
				if lo > hi {
					continue
				}
				atomic.AddInt64(&cases, 1)
				want := x
				if x < lo {
					want = lo
				}
				if x > hi {
					want = hi
				}
				if got := xmath.Clamp(x, lo, hi); got != want {
					fail("xmath/Clamp", "Clamp(%d,%d,%d) = %d", x, lo, hi, got)
				}
			}
		}
	}
	for _, f := range []float64{-1.5, 0, 2.5} {
		if xmath.Clamp(f, -1, 1) != math.Max(-1, math.Min(1, f)) {
			fail("xmath/Clamp", "Clamp(%v,-1,1)", f)
		}
	}
	if xmath.Min("a", "b") != "a" || xmath.Max("a", "b") != "b" {
		fail("xmath/MinMax", "Min/Max on strings")
	}
}

type isErr struct{ tag string }

func (e isErr) Error() string        { return "isErr " + e.tag }
func (e isErr) Is(target error) bool { t, ok := target.(isErr); return ok && t.tag == "any" }

type nonComparable struct{ s []int }

func (e nonComparable) Error() string { return "nonComparable" }

// sameErr compares two error values, also when their dynamic type is not comparable.
func sameErr(a, b error) (same bool) {
	defer func() {
		if recover() != nil {
			same = fmt.Sprintf("%T %v", a, a) == fmt.Sprintf("%T %v", b, b)
		}
	}()
	return a == b
}

// checkDeepStack: the stack attached by WithStack is the whole call stack, however deep.
func checkDeepStack() {
	base := errors.New("base")
	for _, depth := range []int{1, 30, 63, 64, 65, 100, 200} {
		atomic.AddInt64(&cases, 1)
		err := deepStackOuterMarker(depth, base)
		if msg := err.Error(); !strings.Contains(msg, "deepStackOuterMarker") || !strings.Contains(msg, "deepStackInner") {
			fail("xerrors/WithStack-Error", "WithStack called %d frames below deepStackOuterMarker: the outer caller is missing from Error() (%d bytes)", depth, len(msg))
		}
	}
}

//go:noinline
func deepStackOuterMarker(depth int, err error) error { return deepStackInner(depth, err) }

//go:noinline
func deepStackInner(depth int, err error) error {
	if depth <= 0 {
		return xerrors.WithStack(err)
	}
	return deepStackInner(depth-1, err)
}

func checkXerrors() {
	base := errors.New("base")
	if xerrors.WithStack(nil) != nil {
		fail("xerrors/WithStack-nil", "WithStack(nil) != nil")
	}
	leaves := []error{base, isErr{"x"}, nonComparable{[]int{1}}, &nonComparable{[]int{2}}}
	targets := []error{base, isErr{"any"}, isErr{"x"}, errors.New("other"), nonComparable{[]int{1}}, leaves[3]}
	// chains of depth <= 3: each level is plain %w wrapping or WithStack
	var chains []error
	for _, l := range leaves {
		level := []error{l}
		for d := 0; d < 3; d++ {
			var next []error
			for _, e := range level {
				next = append(next, fmt.Errorf("wrap: %w", e), xerrors.WithStack(e))
				if d < 2 {
					// trees of errors: the chain continues through Unwrap() []error
					next = append(next, errors.Join(errors.New("sibling"), e), fmt.Errorf("%w and then %w", errors.New("first"), e))
				}
			}
			chains = append(chains, level...)
			level = next
		}
		chains = append(chains, level...)
	}
	for _, e := range chains {
		atomic.AddInt64(&cases, 1)
		w := xerrors.WithStack(e)
		if w == nil {
			fail("xerrors/WithStack", "WithStack(%q) = nil", e)
			continue
		}
		// idempotent: a second application adds nothing (same inner error, same rendering)
		w2 := xerrors.WithStack(w)
		if !sameErr(errors.Unwrap(w2), errors.Unwrap(w)) || len(w2.Error()) != len(w.Error()) {
			fail("xerrors/WithStack-not-idempotent", "WithStack(WithStack(%q)) wrapped a second time", e)
		}
		var hasStack func(x error) bool
		hasStack = func(x error) bool {
			type unw interface{ Unwrap() error }
			type unwMulti interface{ Unwrap() []error }
			for x != nil {
				if fmt.Sprintf("%T", x) == "xerrors.withStack" {
					return true
				}
				if m, ok := x.(unwMulti); ok {
					for _, c := range m.Unwrap() {
						if hasStack(c) {
							return true
						}
					}
					return false
				}
				u, ok := x.(unw)
				if !ok {
					return false
				}
				x = u.Unwrap()
			}
			return false
		}
		if hasStack(e) {
			// already has a stack attached somewhere in the chain: returned as is
			if len(w.Error()) != len(e.Error()) {
				fail("xerrors/WithStack-not-idempotent", "WithStack of an error that already has a stack in its chain added another one (%q)", e)
			}
		} else if !sameErr(errors.Unwrap(w), e) {
			fail("xerrors/WithStack-Unwrap", "Unwrap(WithStack(e)) is not e for %q", e)
		}
		for _, t := range targets {
			var a, b bool
			pa := try(func() { a = errors.Is(w, t) })
			pb := try(func() { b = errors.Is(e, t) })
			if (pa != nil) != (pb != nil) || a != b {
				fail("xerrors/WithStack-Is", "errors.Is(WithStack(e), %T) = %v but errors.Is(e, target) = %v for e = %q", t, a, b, e)
			}
		}
		// a stack-carrying error is not "the same error" as another stack-carrying error
		for _, other := range []error{xerrors.WithStack(errors.New("unrelated")), xerrors.WithStack(isErr{"unrelated"})} {
			var a bool
			if pa := try(func() { a = errors.Is(w, other) }); pa == nil && a && !errors.Is(e, other) {
				fail("xerrors/WithStack-Is", "errors.Is(WithStack(e), WithStack(unrelated)) is true for e = %q", e)
			}
		}
		var target isErr
		if errors.As(w, &target) != errors.As(e, &target) {
			fail("xerrors/WithStack-As", "errors.As differs through WithStack for %q", e)
		}
		if len(w.Error()) < len(e.Error()) {
			fail("xerrors/WithStack-Error", "Error() of WithStack(%q) lost the message", e)
		}
	}
}

// ---- xrand ------------------------------------------------------------------------------------------

func distinctIn(got []int, n int) bool {
	seen := map[int]bool{}
	for _, x := range got {
		if x < 0 || x >= n || seen[x] {
			return false
		}
		seen[x] = true
	}
	return true
}

func checkXrandStructure(maxN int, seeds int) {
	for n := 0; n <= maxN; n++ {
		items := make([]int, n)
		for i := range items {
			items[i] = i
		}
		for k := 0; k <= n+2; k++ {
			for seed := 0; seed < seeds; seed++ {
				atomic.AddInt64(&cases, 1)
				want := k
				if n < k {
					want = n
				}
				r := rand.New(rand.NewSource(int64(seed)))
				var g1, g2, g3 []int
				if pp := try(func() { g1 = xrand.RSample(r, n, k) }); pp != nil || len(g1) != want || !distinctIn(g1, n) {
					fail("xrand/Sample", "RSample(seed %d, n=%d, k=%d) = %v (panic %v): want %d distinct values in [0,%d)", seed, n, k, g1, pp, want, n)
				}
				if pp := try(func() { g2 = xrand.RSampleSlice(r, items, k) }); pp != nil || len(g2) != want || !distinctIn(g2, n) {
					fail("xrand/SampleSlice", "RSampleSlice(seed %d, n=%d, k=%d) = %v (panic %v)", seed, n, k, g2, pp)
				}
				// the input is only read, and the sample is the caller's own slice
				for i, x := range items {
					if x != i {
						fail("xrand/SampleSlice", "RSampleSlice(seed %d, n=%d, k=%d) reordered its input: %v", seed, n, k, items)
						items[i] = i
					}
				}
				if len(g2) > 0 && n > 0 {
					g2[0] = -7
					for i, x := range items {
						if x != i {
							fail("xrand/SampleSlice", "the result of RSampleSlice(n=%d, k=%d) shares its backing array with the input", n, k)
							items[i] = i
						}
					}
				}
				if pp := try(func() { g3 = xrand.RSampleIterator(r, iterator.Slice(items), k) }); pp != nil || len(g3) != want || !distinctIn(g3, n) {
					fail("xrand/SampleIterator", "RSampleIterator(seed %d, n=%d, k=%d) = %v (panic %v)", seed, n, k, g3, pp)
				}
				if seed < 64 {
					var g4 []int
					var err error
					if pp := try(func() {
						g4, err = xrand.RSampleStream(context.Background(), r, stream.FromIterator(iterator.Slice(items)), k)
					}); pp != nil || err != nil || len(g4) != want || !distinctIn(g4, n) {
						fail("xrand/SampleStream", "RSampleStream(seed %d, n=%d, k=%d) = %v, %v (panic %v)", seed, n, k, g4, err, pp)
					}
					// the package-level functions draw from the global source: structure only
					if g := xrand.Sample(n, k); len(g) != want || !distinctIn(g, n) {
						fail("xrand/Sample", "Sample(%d,%d) = %v", n, k, g)
					}
					if g := xrand.SampleSlice(items, k); len(g) != want || !distinctIn(g, n) {
						fail("xrand/SampleSlice", "SampleSlice(n=%d,%d) = %v", n, k, g)
					}
					if g := xrand.SampleIterator(iterator.Slice(items), k); len(g) != want || !distinctIn(g, n) {
						fail("xrand/SampleIterator", "SampleIterator(n=%d,%d) = %v", n, k, g)
					}
					if g, err := xrand.SampleStream(context.Background(), stream.FromIterator(iterator.Slice(items)), k); err != nil || len(g) != want || !distinctIn(g, n) {
						fail("xrand/SampleStream", "SampleStream(n=%d,%d) = %v, %v", n, k, g, err)
					}
				}
			}
		}
		for seed := 0; seed < seeds; seed++ {
			c := clone(items)
			xrand.RShuffle(rand.New(rand.NewSource(int64(seed))), c)
			if len(c) != n || !distinctIn(c, n) {
				fail("xrand/Shuffle", "RShuffle(seed %d) of %v = %v", seed, items, c)
			}
			if seed < 32 {
				c2 := clone(items)
				xrand.Shuffle(c2) // the package-level function draws from the global source: structure only
				if len(c2) != n || !distinctIn(c2, n) {
					fail("xrand/Shuffle", "Shuffle of %v = %v", items, c2)
				}
			}
		}
	}
}

// checkXrandHuge: Sample(n, k) is O(k), so every n up to the largest int is a legal input: k distinct
// positions in [0, n), no panic.
func checkXrandHuge(seeds int) {
	for _, n := range []int{1 << 31, 1<<31 + 1, 1 << 40, 1 << 53, 1<<53 + 1, 1 << 62, math.MaxInt - 1, math.MaxInt} {
		for _, k := range []int{0, 1, 2, 5} {
			for seed := 0; seed < seeds; seed++ {
				atomic.AddInt64(&cases, 1)
				r := rand.New(rand.NewSource(int64(seed)))
				var g []int
				pp := try(func() { g = xrand.RSample(r, n, k) })
				ok := pp == nil && len(g) == k
				seen := map[int]bool{}
				for _, x := range g {
					if x < 0 || x >= n || seen[x] {
						ok = false
					}
					seen[x] = true
				}
				if !ok {
					fail("xrand/Sample", "RSample(seed %d, n=%d, k=%d) = %v (panic %v): want %d distinct values in [0,n)", seed, n, k, g, pp, k)
					return
				}
			}
		}
	}
}

// discretised random source: answers are scripted; the script is extended on demand and the path
// probability tracked.
type scripted struct {
	m       int
	answers []int
	pos     int
	weight  float64
	arity   []int // arity of each answer taken
}

func (s *scripted) next(n int) int {
	if s.pos == len(s.answers) {
		s.answers = append(s.answers, 0)
	}
	a := s.answers[s.pos]
	if len(s.arity) <= s.pos {
		s.arity = append(s.arity, n)
	}
	s.arity[s.pos] = n
	s.pos++
	s.weight /= float64(n)
	return a
}

func (s *scripted) Float64() float64 { return (float64(s.next(s.m)) + 0.5) / float64(s.m) }
func (s *scripted) Intn(n int) int   { return s.next(n) }
func (s *scripted) Shuffle(n int, swap func(i, j int)) {
	// the order inside the sample is irrelevant for the subset distribution
}

// subsetDistribution enumerates all answer sequences of the discretised source and returns the exact
// probability of every k-subset of [0,n).
var samplerVariants = []string{"Sample", "SampleSlice", "SampleIterator", "SampleStream"}

func subsetDistribution(variant, n, k, m int) (map[int]float64, int64) {
	dist := map[int]float64{}
	var paths int64
	answers := []int{}
	items := make([]int, n)
	for i := range items {
		items[i] = i
	}
	for {
		s := &scripted{m: m, answers: clone(answers), weight: 1}
		var got []int
		switch variant {
		case 0:
			got = xrand.VerifSample(s, n, k)
		case 1:
			got = xrand.VerifSampleSlice(s, items, k)
		case 2:
			got = xrand.VerifSampleIterator(s, iterator.Slice(items), k)
		default:
			got, _ = xrand.VerifSampleStream(context.Background(), s, stream.FromIterator(iterator.Slice(items)), k)
		}
		paths++
		mask := 0
		for _, x := range got {
			mask |= 1 << uint(x)
		}
		dist[mask] += s.weight
		// next script in odometer order over the answers actually consumed
		answers = s.answers[:s.pos]
		i := len(answers) - 1
		for i >= 0 && answers[i] == s.arity[i]-1 {
			i--
		}
		if i < 0 {
			break
		}
		answers = clone(answers[:i+1])
		answers[i]++
	}
	return dist, paths
}

func choose(n, k int) int {
	r := 1
	for i := 0; i < k; i++ {
		r = r * (n - i) / (i + 1)
	}
	return r
}

// calibrated on the unchanged tree: see DESIGN.md (C19). Maximum relative deviation of a subset's
// probability from 1/C(n,k) under the m-point mid-point discretisation, times three.
var tolerance = map[[3]int]float64{}

func checkXrandUniform(quick bool) []map[string]any {
	type cfg struct{ n, k, m int }
	cfgs := []cfg{{2, 1, 8}, {3, 1, 8}, {3, 2, 8}, {4, 2, 6}, {4, 3, 8}}
	if !quick {
		cfgs = append(cfgs, cfg{4, 1, 8}, cfg{5, 3, 6}, cfg{5, 4, 8}, cfg{3, 1, 16}, cfg{4, 3, 16})
	}
	var table []map[string]any
	for variant, vname := range samplerVariants {
		for _, c := range cfgs {
			if variant > 0 && c.m > 8 {
				continue
			}
			dist, paths := subsetDistribution(variant, c.n, c.k, c.m)
			atomic.AddInt64(&cases, paths)
			want := 1 / float64(choose(c.n, c.k))
			maxDev, total := 0.0, 0.0
			for mask, p := range dist {
				total += p
				if bitsSet(mask) != c.k {
					fail("xrand/Sample", "with the discretised source %s(%d,%d) returned a set of %d items", vname, c.n, c.k, bitsSet(mask))
				}
				if d := math.Abs(p-want) / want; d > maxDev {
					maxDev = d
				}
			}
			if len(dist) != choose(c.n, c.k) {
				maxDev = 1 // some subset is never produced
			}
			// The mid-point rule is coarse; what is asserted is that no subset's probability is off by
			// more than the stated factor (a biased or position-dependent sampler is off by far more).
			const tol = 0.35
			if maxDev > tol || math.Abs(total-1) > 1e-9 {
				fail("xrand/Sample-not-uniform", "%s(n=%d,k=%d): under the %d-point discretised source the subset probabilities deviate from 1/C(n,k)=%.4f by up to %.0f%% (tolerance %.0f%%); distribution %v", vname, c.n, c.k, c.m, want, maxDev*100, tol*100, dist)
			}
			table = append(table, map[string]any{"function": vname, "n": c.n, "k": c.k, "quadrature_points": c.m, "answer_sequences": paths, "max_relative_deviation": maxDev, "tolerance": tol})
		}
	}
	return table
}

func bitsSet(m int) int {
	n := 0
	for ; m > 0; m >>= 1 {
		n += m & 1
	}
	return n
}

// OrderedLess is "the < operator" (NaN is left out: the build for Go >= 1.21 uses cmp.Less, which
// orders NaN first, and the documentation does not say which of the two is meant there).
func checkOrderedLess() {
	ints := []int{-2, -1, 0, 1, 2, 1 << 40}
	for _, a := range ints {
		for _, b := range ints {
			atomic.AddInt64(&cases, 1)
			if xsort.OrderedLess(a, b) != (a < b) || xsort.OrderedLess(int8(a), int8(b)) != (int8(a) < int8(b)) || xsort.OrderedLess(uint(a), uint(b)) != (uint(a) < uint(b)) {
				fail("xsort/OrderedLess", "OrderedLess(%d,%d) on int/int8/uint disagrees with <", a, b)
			}
		}
	}
	fl := []float64{math.Inf(-1), -1.5, math.Copysign(0, -1), 0, 1e-300, 2.5, math.Inf(1)}
	for _, a := range fl {
		for _, b := range fl {
			atomic.AddInt64(&cases, 1)
			if xsort.OrderedLess(a, b) != (a < b) {
				fail("xsort/OrderedLess", "OrderedLess(%v,%v) = %v, a < b is %v", a, b, xsort.OrderedLess(a, b), a < b)
			}
		}
	}
	strs := []string{"", "a", "A", "ab", "b", "\xff"}
	for _, a := range strs {
		for _, b := range strs {
			atomic.AddInt64(&cases, 1)
			if xsort.OrderedLess(a, b) != (a < b) {
				fail("xsort/OrderedLess", "OrderedLess(%q,%q) = %v, a < b is %v", a, b, xsort.OrderedLess(a, b), a < b)
			}
		}
	}
}

func main() {
	run = vx.Start("C19")
	maxLen, seeds := 6, 1<<9
	if !run.Quick() {
		maxLen, seeds = 8, 1<<13
	}
	inputs := seqs(3, maxLen)
	// longer, structured inputs (lengths the exhaustive part cannot reach)
	var long [][]int
	for n := 8; n <= 33; n++ {
		mk := func(f func(i int) int) []int {
			x := make([]int, n)
			for i := range x {
				x[i] = f(i)
			}
			return x
		}
		long = append(long, mk(func(i int) int { return 1 }), mk(func(i int) int { return i % 2 }), mk(func(i int) int { return i % 3 }), mk(func(i int) int { return (n - i) % 3 }),
			mk(func(i int) int {
				if i > 2 && i < n-2 {
					return 2
				}
				return i % 2
			}))
	}
	inputs = append(inputs, long...)
	// in-place functions get values 1..3 so that zeroed slots would show
	vx.Parallel(len(inputs), func(i int) {
		s := clone(inputs[i])
		checkXslices(s)
	})
	small := seqs(3, 3)
	vx.Parallel(len(small), func(i int) {
		for _, b := range small {
			checkPairs(small[i], b)
		}
	})
	var ranks [][3]int
	for a := 0; a < 3; a++ {
		for b := 0; b < 3; b++ {
			for c := 0; c < 3; c++ {
				ranks = append(ranks, [3]int{a, b, c})
			}
		}
	}
	sortInputs := append(seqs(3, 5), long[:60]...)
	vx.Parallel(len(sortInputs), func(i int) {
		for _, r := range ranks {
			checkXsort(sortInputs[i], r)
		}
	})
	mergeParts := seqs(3, 2)
	vx.Parallel(len(mergeParts), func(i int) {
		for _, b := range mergeParts {
			for _, r := range ranks {
				checkMerge([][]int{mergeParts[i], b}, r)
				checkMerge([][]int{mergeParts[i], nil, b}, r)
				if len(mergeParts[i]) <= 1 {
					checkMerge([][]int{b, mergeParts[i], b}, r)
				}
			}
		}
	})
	// four and five inputs
	tiny := seqs(3, 1)
	for _, a := range tiny {
		for _, b := range tiny {
			for _, c := range tiny {
				for _, d := range tiny {
					for _, r := range ranks {
						checkMerge([][]int{a, b, c, d}, r)
					}
					checkMerge([][]int{a, b, {0, 1, 2}, c, d}, [3]int{0, 1, 2})
				}
			}
		}
	}
	checkMerge(nil, [3]int{0, 1, 2})
	checkMerge([][]int{{}}, [3]int{0, 1, 2})
	guardCheck := func(name string, f func()) {
		defer func() {
			if p := recover(); p != nil {
				fail(name+"/panic", "%s panicked: %v", name, p)
			}
		}()
		f()
	}
	guardCheck("xsort/OrderedLess", checkOrderedLess)
	guardCheck("xmaps", checkXmaps)
	guardCheck("xmath", checkXmath)
	guardCheck("xerrors", checkXerrors)
	guardCheck("xerrors/deep-stack", checkDeepStack)
	checkXrandStructure(8, seeds)
	checkXrandHuge(seeds / 4)
	table := checkXrandUniform(run.Quick())
	total := atomic.LoadInt64(&cases)
	run.AddCounts(total, total, total)
	run.Set("slices", len(inputs))
	run.Set("orders_with_ties", len(ranks))
	run.Set("sampler_seeds", seeds)
	run.Set("sampler_subset_distribution", table)
	run.Sample(map[string]any{"function": "xslices.Partition", "input": []int{1, 0, 2, 1}, "predicate_table": "101"})
	run.Sample(map[string]any{"function": "xsort.MergeSlices", "out": []int{7, 7}, "inputs": [][]int{{0, 1}, {0, 2}}, "ranks": []int{0, 0, 1}})
	run.Set("rule", "every slice over {0,1,2} up to length 6/7 x every argument the documentation defines (all predicate tables, indices, counts, chunk sizes incl. the documented-panic range, capacity variants); every order with ties (27 rank tables) for xsort incl. pre-allocated out slices for MergeSlices; all pairs/triples of subsets of a 4-element universe for xmaps; every integer width with extreme values; error chains of depth <= 3 (plain, %w, WithStack at each level, custom Is, non-comparable); samplers: every n <= 8, k in [0,n+2], every seed below the bound, plus the exact subset distribution over all answer sequences of a discretised random source")
	run.Assume("uniformity of the samplers is decided over an m-point discretisation of the uniform source (exhaustive over the discretisation, not a proof of uniformity): the largest relative deviation of a subset's probability must stay below 35%")
	run.Assume("behaviour for arguments the documentation does not define (out-of-range indices of Insert/Remove/RemoveUnordered) is not checked")
	run.Finish()
}
