// Package scn holds the C20 scenario bodies (xtime.SleepContext, xtime.JitterTicker) on the virtual
// clock.
package scn

import (
	"context"
	"errors"
	"fmt"
	"time"

	"github.com/bradenaw/juniper/xtime"

	"verif/mc/hx"
)

type Scenario struct {
	Name      string
	TimerMode int
	Body      func()
}

const ms = time.Millisecond

// sleepCtx: ctxKind: "none", "deadline" (at dl), "cancelled" (before the call), "cancelAt" (a thread
// cancels at virtual time dl).
func sleepCtx(d time.Duration, ctxKind string, dl time.Duration, mode int) Scenario {
	return Scenario{fmt.Sprintf("sleep/d=%v/ctx=%s@%v/timerMode=%d", d, ctxKind, dl, mode), mode, func() {
		ctx := context.Background()
		var cancel context.CancelFunc = func() {}
		switch ctxKind {
		case "deadline":
			ctx, cancel = context.WithDeadline(ctx, time.Now().Add(dl))
		case "cancelled":
			ctx, cancel = context.WithCancel(ctx)
			cancel()
		case "cancelAt":
			ctx, cancel = context.WithCancel(ctx)
		case "cancelCauseAt":
			// cancelled mid-sleep with a cause: SleepContext still returns the context's error
			c, cc := context.WithCancelCause(ctx)
			ctx, cancel = c, func() { cc(errors.New("shutting down")) }
		case "customEndsWithoutDeadline":
			// a caller-defined context that ends at dl with DeadlineExceeded but reports no deadline
			inner, c := context.WithTimeout(ctx, dl)
			ctx, cancel = noDeadline{inner}, c
		case "customPastDeadline":
			// a caller-defined context type whose deadline has passed although it never ends
			ctx = pastDeadline{ctx, time.Now().Add(dl)}
		case "farDeadlineCancelAt":
			// a context that has a (far) deadline and is cancelled mid-sleep
			ctx, cancel = context.WithDeadline(ctx, time.Now().Add(100*d+dl))
		}
		defer cancel()
		type res struct {
			done    bool
			err     error
			elapsed time.Duration
			start   time.Duration
		}
		// the context's deadline on the virtual clock, if it has one
		hasDeadline := ctxKind == "deadline" || ctxKind == "farDeadlineCancelAt" || ctxKind == "customPastDeadline"
		dlAbs := hx.Now() + dl
		if ctxKind == "farDeadlineCancelAt" {
			dlAbs = hx.Now() + 100*d + dl
		}
		var shared res
		go func() {
			start := hx.Now()
			err := xtime.SleepContext(ctx, d)
			el := hx.Now() - start
			hx.Atomically(func() { shared = res{true, err, el, start} })
		}()
		if ctxKind == "cancelAt" || ctxKind == "farDeadlineCancelAt" || ctxKind == "cancelCauseAt" {
			hx.Sleep(dl)
			cancel()
			// The context has ended and the clock is stopped: a SleepContext that is still parked now
			// is not returning the context's error although the context ended first.
			hx.QuiesceNow()
			hx.Atomically(func() {
				if !shared.done {
					hx.Fail("sleep/blocked-with-cancelled-context", "SleepContext(%v) is still blocked although its context was cancelled at %v and no thread is running", d, dl)
				}
			})
		}
		hx.Quiesce()
		var r res
		hx.Atomically(func() { r = shared })
		if !r.done {
			hx.Fail("sleep/never-returned", "SleepContext(%v) did not return", d)
		}
		var tooSoon xtime.DeadlineTooSoonError
		isTooSoon := errors.As(r.err, &tooSoon)
		// time left until the deadline when SleepContext was called (the calling thread may have
		// been slow to start)
		rem := dlAbs - r.start
		switch {
		case d <= 0:
			if r.err != nil || r.elapsed != 0 {
				hx.Fail("sleep/nonpositive", "SleepContext(%v) returned %v after %v, want nil at once", d, r.err, r.elapsed)
			}
		case r.err == nil:
			if r.elapsed < d {
				hx.Fail("sleep/returned-early", "SleepContext(%v) returned nil after only %v", d, r.elapsed)
			}
		case isTooSoon:
			if !(hasDeadline && rem < d) {
				hx.Fail("sleep/spurious-deadline-too-soon", "SleepContext(%v) returned DeadlineTooSoonError although the deadline is %v away", d, rem)
			}
			if r.elapsed != 0 {
				hx.Fail("sleep/deadline-too-soon-late", "DeadlineTooSoonError was returned after %v, not immediately", r.elapsed)
			}
		default:
			if ctx.Err() == nil || r.err != ctx.Err() {
				hx.Fail("sleep/wrong-error", "SleepContext returned %v, the context's error is %v", r.err, ctx.Err())
			}
		}
		if d > 0 && hasDeadline && rem < d && !isTooSoon {
			hx.Fail("sleep/deadline-too-soon-missed", "the deadline is %v away, closer than d=%v, but SleepContext returned %v after %v instead of DeadlineTooSoonError", rem, d, r.err, r.elapsed)
		}
		// (with a deadline beyond d the context's error is still possible: an arbitrarily slow thread
		// may reach its select only after the deadline; the default case above checked that the
		// context really has ended and that the error is the context's own)
		if d > 0 && ctxKind == "none" && r.err != nil {
			hx.Fail("sleep/spurious-error", "SleepContext(%v) returned %v although the context does not end before d", d, r.err)
		}
		hx.Outcome("err=%v elapsed=%v", r.err, r.elapsed)
	}}
}

// sleepTwice: a SleepContext that is ended by its context at the very moment its time is up (both
// are ready), then a plain SleepContext(d): whatever the first call left behind, the second one
// returns nil only after d.
func sleepTwice(d time.Duration, mode int) Scenario {
	return Scenario{fmt.Sprintf("sleep/twice/d=%v/timerMode=%d", d, mode), mode, func() {
		for _, cancelAt := range []time.Duration{d, d / 2} {
			ctx, cancel := context.WithCancel(context.Background())
			go func() {
				hx.Sleep(cancelAt)
				cancel()
			}()
			_ = xtime.SleepContext(ctx, d)
			cancel()
			hx.Sleep(3 * d) // let every timer of the first call come due
			start := hx.Now()
			err := xtime.SleepContext(context.Background(), d)
			if el := hx.Now() - start; err != nil || el < d {
				hx.Fail("sleep/returned-early", "a SleepContext(%v) that follows one ended by its context returned %v after %v", d, err, el)
			}
		}
		hx.Outcome("ok")
	}}
}

// lazyConsumer: the consumer reads a tick only every 3 periods (the ticker's callbacks may run late,
// ticks it cannot deliver are dropped); ticks it does receive are still d - jitter apart, and Stop
// returns although nobody is reading.
func lazyConsumer(d, jitter time.Duration, n int, mode int) Scenario {
	return Scenario{fmt.Sprintf("ticker/lazy-consumer/d=%v/jitter=%v/ticks=%d/timerMode=%d", d, jitter, n, mode), mode, func() {
		t := xtime.NewJitterTicker(d, jitter)
		var last time.Time
		for i := 0; i < n; i++ {
			hx.Sleep(3 * d)
			tick := <-t.C
			if !last.IsZero() && tick.Sub(last) < d-jitter {
				hx.Fail("ticker/ticks-too-close", "consecutive ticks %v apart, less than d-jitter = %v", tick.Sub(last), d-jitter)
			}
			last = tick
		}
		hx.Sleep(3 * d) // ticks pile up against the full channel
		t.Stop()        // (a Stop that cannot return shows as a deadlock)
		sends := hx.Sends(t.C)
		hx.Sleep(4 * d)
		hx.Quiesce()
		if s := hx.Sends(t.C); s != sends {
			hx.Fail("ticker/tick-after-stop", "%d tick(s) were sent on the channel after Stop had returned", s-sends)
		}
		hx.Outcome("ok")
	}}
}

// noDeadline hides the deadline of the context it wraps (everything else is passed through).
type noDeadline struct{ context.Context }

func (noDeadline) Deadline() (time.Time, bool) { return time.Time{}, false }

// pastDeadline is a context of the caller's own making: it reports a deadline and never ends.
type pastDeadline struct {
	context.Context
	dl time.Time
}

func (p pastDeadline) Deadline() (time.Time, bool) { return p.dl, true }

// ticker: receive n ticks at the consumer's own pace; other = "", "reset" (Reset(d2,j2) from another
// thread at any time), "stop" (Stop from another thread at any time).
func ticker(d, jitter time.Duration, n int, other string, d2, j2 time.Duration, mode int) Scenario {
	return Scenario{fmt.Sprintf("ticker/d=%v/jitter=%v/ticks=%d/%s(%v,%v)/timerMode=%d", d, jitter, n, other, d2, j2, mode), mode, func() {
		t := xtime.NewJitterTicker(d, jitter)
		minGap := d - jitter
		if other == "reset" && d2-j2 < minGap {
			minGap = d2 - j2
		}
		stopped := false
		sendsAtStop := 0
		var resetCall, resetReturn time.Duration
		resetDone := false
		done := make(chan struct{})
		if other != "" {
			go func() {
				defer close(done)
				hx.Sleep(time.Duration(hx.Choose("when", 3)) * d / 2)
				if other == "reset" {
					c := hx.Now()
					t.Reset(d2, j2)
					hx.Atomically(func() { resetCall, resetReturn, resetDone = c, hx.Now(), true })
				} else {
					t.Stop()
					hx.Atomically(func() { stopped = true; sendsAtStop = hx.Sends(t.C) })
				}
			}()
		} else {
			close(done)
		}
		var last time.Time
		var ticks []time.Time
		epoch := time.Now().Add(-hx.Now())
		for i := 0; i < n; i++ {
			var tick time.Time
			if other == "stop" {
				got := false
				select {
				case tick = <-t.C:
					got = true
				case <-done:
				}
				if !got {
					break
				}
			} else {
				tick = <-t.C
			}
			if !last.IsZero() && tick.Sub(last) < minGap {
				hx.Fail("ticker/ticks-too-close", "consecutive ticks %v apart, less than d-jitter = %v", tick.Sub(last), minGap)
			}
			last = tick
			ticks = append(ticks, tick)
		}
		<-done
		// "the next tick will arrive after the new period elapses": a tick stamped after Reset
		// returned was scheduled under the new setting
		if resetDone {
			for _, tk := range ticks {
				ts := tk.Sub(epoch)
				if ts > resetReturn && ts < resetCall+d2-j2 {
					hx.Fail("ticker/tick-too-soon-after-reset", "Reset(%v,%v) was called at %v and returned at %v; a tick stamped %v arrived before the new period (at least %v) had elapsed", d2, j2, resetCall, resetReturn, ts, d2-j2)
				}
			}
		}
		if other != "stop" {
			t.Stop()
			hx.Atomically(func() { stopped = true; sendsAtStop = hx.Sends(t.C) })
		}
		// no tick is sent after Stop has returned, however long we wait
		hx.Sleep(3 * (d + jitter + d2 + j2))
		hx.Quiesce()
		if s := hx.Sends(t.C); stopped && s != sendsAtStop {
			hx.Fail("ticker/tick-after-stop", "%d tick(s) were sent on the channel after Stop had returned", s-sendsAtStop)
		}
		hx.Outcome("ok")
	}}
}

// extreme: the largest arguments the documentation allows (d > 0, 0 <= jitter < d).
func extreme() Scenario {
	return Scenario{"ticker-extreme/d=MaxInt64/jitter=2^62+1", 0, func() {
		t := xtime.NewJitterTicker(time.Duration(1<<63-1), time.Duration(1<<62+1))
		t.Stop()
		hx.Outcome("ok")
	}}
}

func All() []Scenario {
	var out []Scenario
	for mode := 0; mode < 2; mode++ {
		for _, d := range []time.Duration{-1 * ms, 0, 10 * ms} {
			out = append(out, sleepCtx(d, "none", 0, mode))
		}
		out = append(out,
			sleepCtx(10*ms, "deadline", 20*ms, mode),
			sleepCtx(10*ms, "deadline", 10*ms, mode),
			sleepCtx(10*ms, "deadline", 5*ms, mode),
			sleepCtx(1*ms, "deadline", 100*ms, mode),
			// deadlines a hair inside / outside d
			sleepCtx(10*ms, "deadline", 10*ms-1, mode),
			sleepCtx(10*ms, "deadline", 10*ms-400*time.Microsecond, mode),
			sleepCtx(10*ms, "deadline", 10*ms+1, mode),
			sleepCtx(-1*ms, "cancelled", 0, mode),
			sleepCtx(10*ms, "cancelled", 0, mode),
			sleepCtx(0, "cancelled", 0, mode),
			sleepCtx(10*ms, "cancelAt", 5*ms, mode),
			sleepCtx(10*ms, "cancelAt", 10*ms, mode),
			sleepCtx(10*ms, "cancelAt", 0, mode),
			sleepCtx(10*ms, "cancelAt", 15*ms, mode),
			sleepCtx(10*ms, "farDeadlineCancelAt", 5*ms, mode),
			sleepCtx(10*ms, "cancelCauseAt", 5*ms, mode),
			sleepCtx(10*ms, "customEndsWithoutDeadline", 5*ms, mode),
			sleepCtx(10*ms, "customPastDeadline", -5*ms, mode),
			sleepCtx(10*ms, "customPastDeadline", 5*ms, mode),
		)
	}
	out = append(out,
		ticker(4*ms, 0, 3, "", 0, 0, 0),
		ticker(4*ms, 1*ms, 3, "", 0, 0, 0),
		ticker(4*ms, 3*ms, 3, "", 0, 0, 0),
		ticker(1*ms, 0, 3, "", 0, 0, 1),
		ticker(4*ms, 1*ms, 3, "reset", 2*ms, 0, 0),
		ticker(4*ms, 0, 3, "reset", 6*ms, 5*ms, 0),
		ticker(2*ms, 0, 3, "reset", 8*ms, 1*ms, 0),
		// Reset to a period smaller than the OLD jitter, and to jitter 0 from a large one
		ticker(8*ms, 6*ms, 2, "reset", 2*ms, 0, 0),
		ticker(8*ms, 6*ms, 2, "reset", 3*ms, 2*ms, 1),
		extreme(),
		sleepTwice(10*ms, 0), sleepTwice(10*ms, 1),
		// the smallest jitters (any 0 <= jitter < d is legal), also through Reset
		ticker(4*ms, 1, 2, "", 0, 0, 0),
		ticker(4*ms, 500, 2, "reset", 2*ms, 999, 1),
		ticker(3, 2, 2, "", 0, 0, 0),
		lazyConsumer(4*ms, 0, 3, 0), lazyConsumer(4*ms, 1*ms, 2, 1),
		ticker(4*ms, 1*ms, 3, "stop", 0, 0, 0),
		ticker(4*ms, 3*ms, 2, "stop", 0, 0, 1),
	)
	return out
}
