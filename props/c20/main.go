//go:build mcbuild

// C20: xtime.SleepContext and xtime.JitterTicker on the virtual clock. Engine E2.
package main

import (
	"strings"
	"time"

	"verif/mc"
	"verif/mc/mcx"
	"verif/props/c20/scn"
)

func main() {
	var scs []mcx.Scenario
	for _, s := range scn.All() {
		sc := mcx.Scenario{Name: s.Name, Body: s.Body, Cfg: mc.Config{TimerMode: s.TimerMode}, Bound: 2, ThoroughBound: 3, SwitchBound: 4, Family: strings.SplitN(s.Name, "/", 2)[0], MaxTime: 2 * time.Minute}
		if strings.HasPrefix(s.Name, "sleep/") && !strings.HasPrefix(s.Name, "sleep/twice") {
			sc.Bound, sc.ThoroughBound = -1, -1
		}
		if strings.Contains(s.Name, "lazy-consumer") {
			// many ticks, each with three enumerated random answers: one preemption is what the quick tier affords
			sc.Bound, sc.ThoroughBound = 1, 2
		}
		scs = append(scs, sc)
	}
	mcx.Main("C20", scs, []string{
		"time is the runtime's virtual clock: timers fire when the explorer lets time pass; letting time pass while a thread could run counts as a preemption (that thread was slow)",
		"both timer-channel semantics are explored (Go <= 1.22: buffered, Stop does not drain; Go 1.23: Stop/Reset drain)",
		"when the timer and the context are ready at the same instant, or the sleeping thread was slow, either answer is accepted; a SleepContext still parked after its context ended with the clock stopped is a violation",
		"math/rand answers are enumerated from {0, n/2, n-1}",
	})
}
