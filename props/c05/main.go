// C05: xheap.Heap and xheap.PriorityQueue always hand out a minimum; key map stays exact.
//
// Engine E1: breadth-first closure over the reachable heap arrays (as exposed by Iterate) of the
// real xheap.Heap / xheap.PriorityQueue, started from EVERY initial slice up to a length bound,
// full observation after every transition, multiset / map reference model.
package main

import (
	"fmt"
	"sort"
	"strings"
	"sync"

	"github.com/bradenaw/juniper/container/xheap"
	"github.com/bradenaw/juniper/iterator"

	"verif/internal/seqx"
	"verif/internal/vx"
)

const (
	opInit   = iota // A = index into the table of initial slices
	opPush          // heap: A = priority
	opPop           //
	opUpdate        // queue: A = key, B = priority
	opRemove        // queue: A = key
)

type item struct{ p, id int }

// ---------------------------------------------------------------------------------------------
// Heap

type heapSys struct {
	cmp     bool // built with NewCmp
	maxSize int
	prios   int
	inits   [][]int // initial priority lists
}

func (s heapSys) opStr(o seqx.Op) string {
	switch o.K {
	case opInit:
		return fmt.Sprintf("New(initial priorities %v)", s.inits[o.A])
	case opPush:
		return fmt.Sprintf("Push(p=%d)", o.A)
	default:
		return "Pop"
	}
}

func (s heapSys) pathStr(p []seqx.Op) []string {
	out := make([]string, len(p))
	for i, o := range p {
		out[i] = s.opStr(o)
	}
	return out
}

func collect[T any](it iterator.Iterator[T], limit int) ([]T, bool) {
	var out []T
	for i := 0; i <= limit; i++ {
		x, ok := it.Next()
		if !ok {
			return out, true
		}
		out = append(out, x)
	}
	return out, false
}

func (s heapSys) Run(path []seqx.Op) (res seqx.Result) {
	var h xheap.Heap[item]
	var model []item // multiset
	nextID := 0
	mk := func(init []item) {
		if s.cmp {
			h = xheap.NewCmp(func(a, b item) int { return a.p - b.p }, init)
		} else {
			h = xheap.New(func(a, b item) bool { return a.p < b.p }, init)
		}
	}
	built := false
	minP := func() int {
		m := model[0].p
		for _, x := range model {
			if x.p < m {
				m = x.p
			}
		}
		return m
	}
	removeModel := func(x item) bool {
		for i := range model {
			if model[i] == x {
				model = append(model[:i:i], model[i+1:]...)
				return true
			}
		}
		return false
	}
	var viol *seqx.Viol
	for i, o := range path {
		last := i == len(path)-1
		switch o.K {
		case opInit:
			var init []item
			for _, p := range s.inits[o.A] {
				init = append(init, item{p, nextID})
				nextID++
			}
			model = append([]item(nil), init...)
			mk(init)
			built = true
		case opPush:
			if !built {
				mk(nil)
				built = true
			}
			x := item{int(o.A), nextID}
			nextID++
			p := vx.Catch(func() { h.Push(x) })
			if p != nil {
				viol = &seqx.Viol{Sig: "heap/push-panic", Detail: fmt.Sprint(p)}
			}
			model = append(model, x)
		case opPop:
			if !built {
				mk(nil)
				built = true
			}
			var got item
			p := vx.Catch(func() { got = h.Pop() })
			if len(model) == 0 {
				if p == nil && last {
					viol = &seqx.Viol{Sig: "heap/pop-empty-no-panic", Detail: "Pop on an empty heap did not panic"}
				}
				break
			}
			if p != nil {
				viol = &seqx.Viol{Sig: "heap/pop-panic", Detail: fmt.Sprint(p)}
				break
			}
			if last {
				if got.p != minP() {
					viol = &seqx.Viol{Sig: "heap/pop-not-minimal", Detail: fmt.Sprintf("Pop returned priority %d but a held item has priority %d", got.p, minP())}
				}
			}
			if !removeModel(got) && viol == nil {
				viol = &seqx.Viol{Sig: "heap/pop-not-held", Detail: fmt.Sprintf("Pop returned %v which is not held", got)}
			}
		}
		if viol != nil {
			if !last {
				viol.Sig = "prefix/" + viol.Sig
			}
			res.Viol = viol
			return
		}
	}
	if !built {
		mk(nil)
	}
	// full observation
	res.Checks = 1
	if h.Len() != len(model) {
		res.Viol = &seqx.Viol{Sig: "heap/len", Detail: fmt.Sprintf("Len()=%d, model %d", h.Len(), len(model))}
		return
	}
	if len(model) == 0 {
		if vx.Catch(func() { h.Peek() }) == nil {
			res.Viol = &seqx.Viol{Sig: "heap/peek-empty-no-panic", Detail: "Peek on an empty heap did not panic"}
			return
		}
	} else {
		var got item
		if p := vx.Catch(func() { got = h.Peek() }); p != nil {
			res.Viol = &seqx.Viol{Sig: "heap/peek-panic", Detail: fmt.Sprint(p)}
			return
		}
		held := false
		for _, x := range model {
			if x == got {
				held = true
			}
		}
		if !held {
			res.Viol = &seqx.Viol{Sig: "heap/peek-not-held", Detail: fmt.Sprintf("Peek returned %v which is not held", got)}
			return
		}
		if got.p != minP() {
			res.Viol = &seqx.Viol{Sig: "heap/peek-not-minimal", Detail: fmt.Sprintf("Peek returned priority %d but a held item has priority %d", got.p, minP())}
			return
		}
	}
	arr, ok := collect(h.Iterate(), len(model)+2)
	if !ok || len(arr) != len(model) {
		res.Viol = &seqx.Viol{Sig: "heap/iterate-count", Detail: fmt.Sprintf("Iterate yields %d items, model %d", len(arr), len(model))}
		return
	}
	a := append([]item(nil), arr...)
	b := append([]item(nil), model...)
	less := func(s []item) func(i, j int) bool { return func(i, j int) bool { return s[i].id < s[j].id } }
	sort.Slice(a, less(a))
	sort.Slice(b, less(b))
	for i := range a {
		if a[i] != b[i] {
			res.Viol = &seqx.Viol{Sig: "heap/iterate-contents", Detail: "Iterate does not yield exactly the held items"}
			return
		}
	}
	var sb strings.Builder
	for _, x := range arr {
		fmt.Fprintf(&sb, "%d,", x.p)
	}
	res.Key = sb.String()
	if len(model) < s.maxSize {
		for p := 0; p < s.prios; p++ {
			res.Next = append(res.Next, seqx.Op{K: opPush, A: int16(p)})
		}
	}
	res.Next = append(res.Next, seqx.Op{K: opPop})
	return
}

// ---------------------------------------------------------------------------------------------
// PriorityQueue

type kp = xheap.KP[int, int]

type pqSys struct {
	cmp   bool
	keys  int
	prios int
	inits [][]kp
	// coarse: priorities 2c-1 and 2c rank the same (a non-injective order): an Update to a different
	// priority of the same rank still has to be stored
	coarse bool
}

func (s pqSys) rank(p int) int {
	if s.coarse {
		return (p + 1) / 2
	}
	return p
}

func (s pqSys) opStr(o seqx.Op) string {
	switch o.K {
	case opInit:
		return fmt.Sprintf("NewPriorityQueue(initial %v)", s.inits[o.A])
	case opUpdate:
		return fmt.Sprintf("Update(k%d,p=%d)", o.A, o.B)
	case opRemove:
		return fmt.Sprintf("Remove(k%d)", o.A)
	default:
		return "Pop"
	}
}

func (s pqSys) pathStr(p []seqx.Op) []string {
	out := make([]string, len(p))
	for i, o := range p {
		out[i] = s.opStr(o)
	}
	return out
}

// Priorities are 1..prios so that the zero value returned for an absent key is distinguishable.
func (s pqSys) Run(path []seqx.Op) (res seqx.Result) {
	var q xheap.PriorityQueue[int, int]
	model := map[int]int{}
	mk := func(init []kp) {
		if s.cmp {
			q = xheap.NewPriorityQueueCmp[int, int](func(a, b int) int { return 1000 * (s.rank(a) - s.rank(b)) }, init)
		} else {
			q = xheap.NewPriorityQueue[int, int](func(a, b int) bool { return s.rank(a) < s.rank(b) }, init)
		}
	}
	built := false
	// the smallest rank held (priorities of one rank are interchangeable for Peek/Pop)
	minP := func() int {
		m := 1 << 30
		for _, p := range model {
			if s.rank(p) < m {
				m = s.rank(p)
			}
		}
		return m
	}
	var viol *seqx.Viol
	for i, o := range path {
		last := i == len(path)-1
		if !built && o.K != opInit {
			mk(nil)
			built = true
		}
		switch o.K {
		case opInit:
			init := append([]kp(nil), s.inits[o.A]...)
			given := map[int]map[int]bool{}
			for _, x := range init {
				if given[x.K] == nil {
					given[x.K] = map[int]bool{}
				}
				given[x.K][x.P] = true
			}
			mk(init)
			built = true
			// The statement fixes only "each distinct key once"; which of the listed priorities a
			// duplicated key gets is not specified, so adopt the observed one if it was listed.
			for k, ps := range given {
				if !q.Contains(k) {
					viol = &seqx.Viol{Sig: "pq/init-missing-key", Detail: fmt.Sprintf("key %d of the initial list is not in the queue", k)}
					break
				}
				p := q.Priority(k)
				if !ps[p] {
					viol = &seqx.Viol{Sig: "pq/init-wrong-priority", Detail: fmt.Sprintf("key %d has priority %d which the initial list never gave it", k, p)}
					break
				}
				model[k] = p
			}
		case opUpdate:
			if p := vx.Catch(func() { q.Update(int(o.A), int(o.B)) }); p != nil {
				viol = &seqx.Viol{Sig: "pq/update-panic", Detail: fmt.Sprint(p)}
			}
			model[int(o.A)] = int(o.B)
		case opRemove:
			if p := vx.Catch(func() { q.Remove(int(o.A)) }); p != nil {
				viol = &seqx.Viol{Sig: "pq/remove-panic", Detail: fmt.Sprint(p)}
			}
			delete(model, int(o.A))
		case opPop:
			var got int
			p := vx.Catch(func() { got = q.Pop() })
			if len(model) == 0 {
				if p == nil && last {
					viol = &seqx.Viol{Sig: "pq/pop-empty-no-panic", Detail: "Pop on an empty queue did not panic"}
				}
				break
			}
			if p != nil {
				viol = &seqx.Viol{Sig: "pq/pop-panic", Detail: fmt.Sprint(p)}
				break
			}
			pr, ok := model[got]
			if !ok {
				viol = &seqx.Viol{Sig: "pq/pop-not-held", Detail: fmt.Sprintf("Pop returned key %d which is not in the queue", got)}
				break
			}
			if s.rank(pr) != minP() {
				viol = &seqx.Viol{Sig: "pq/pop-not-minimal", Detail: fmt.Sprintf("Pop returned key %d with priority %d (rank %d) but another key has rank %d", got, pr, s.rank(pr), minP())}
			}
			delete(model, got)
		}
		if viol != nil {
			if !last {
				viol.Sig = "prefix/" + viol.Sig
			}
			res.Viol = viol
			return
		}
	}
	if !built {
		mk(nil)
	}
	res.Checks = 1
	fail := func(sig, format string, a ...any) {
		if res.Viol == nil {
			res.Viol = &seqx.Viol{Sig: sig, Detail: fmt.Sprintf(format, a...)}
		}
	}
	if p := vx.Catch(func() {
		if q.Len() != len(model) {
			fail("pq/len", "Len()=%d, model %d", q.Len(), len(model))
		}
		for k := -1; k <= s.keys; k++ {
			p, ok := model[k]
			if q.Contains(k) != ok {
				fail("pq/contains", "Contains(%d)=%v, model %v", k, q.Contains(k), ok)
			}
			if got := q.Priority(k); got != p {
				fail("pq/priority", "Priority(%d)=%d, model %d", k, got, p)
			}
		}
	}); p != nil {
		fail("pq/observe-panic", "Len/Contains/Priority panicked: %v", p)
	}
	if res.Viol != nil {
		return
	}
	if len(model) == 0 {
		if vx.Catch(func() { q.Peek() }) == nil {
			fail("pq/peek-empty-no-panic", "Peek on an empty queue did not panic")
			return
		}
	} else {
		var got int
		if p := vx.Catch(func() { got = q.Peek() }); p != nil {
			fail("pq/peek-panic", "%v", p)
			return
		}
		pr, ok := model[got]
		if !ok {
			fail("pq/peek-not-held", "Peek returned key %d which is not in the queue", got)
			return
		}
		if s.rank(pr) != minP() {
			fail("pq/peek-not-minimal", "Peek returned key %d with priority %d (rank %d) but another key has rank %d", got, pr, s.rank(pr), minP())
			return
		}
	}
	arr, ok := collect(q.Iterate(), len(model)+2)
	if !ok || len(arr) != len(model) {
		fail("pq/iterate-count", "Iterate yields %d keys, model %d", len(arr), len(model))
		return
	}
	seen := map[int]bool{}
	var sb strings.Builder
	for _, k := range arr {
		if _, ok := model[k]; !ok || seen[k] {
			fail("pq/iterate-contents", "Iterate yields key %d which is absent or repeated", k)
			return
		}
		seen[k] = true
		fmt.Fprintf(&sb, "%d:%d,", k, model[k])
	}
	res.Key = sb.String()
	for k := 0; k < s.keys; k++ {
		for p := 1; p <= s.prios; p++ {
			res.Next = append(res.Next, seqx.Op{K: opUpdate, A: int16(k), B: int16(p)})
		}
		res.Next = append(res.Next, seqx.Op{K: opRemove, A: int16(k)})
	}
	res.Next = append(res.Next, seqx.Op{K: opPop})
	return
}

// heapArrays enumerates every heap-ordered array of length n over `prios` priorities (a child is
// never smaller than its parent): these are exactly the reachable heap states of that size.
func heapArrays(n, prios int) [][]int {
	var out [][]int
	a := make([]int, n)
	var rec func(i int)
	rec = func(i int) {
		if i == n {
			out = append(out, append([]int(nil), a...))
			return
		}
		lo := 0
		if i > 0 {
			lo = a[(i-1)/2]
		}
		for v := lo; v < prios; v++ {
			a[i] = v
			rec(i + 1)
		}
	}
	rec(0)
	return out
}

// bigQueues: for every heap state of sizes lo..hi, every single Remove / Update / Pop, followed by a
// full observation and a complete drain. Reaches the deep-heap cases (an inner slot whose replacement
// comes from another subtree and has to sift UP) that the closure over 6-7 keys cannot contain.
func bigQueues(run *vx.Run, lo, hi, prios int) (states, trans int64) {
	var jobs [][]int
	for n := lo; n <= hi; n++ {
		jobs = append(jobs, heapArrays(n, prios)...)
	}
	return queuesFrom(run, jobs, prios)
}

// deepArrays: structured heap-ordered arrays with sift paths of depth 5 and 6 (sizes 31..100).
func deepArrays() [][]int {
	var out [][]int
	depth := func(i int) int {
		d := 0
		for i > 0 {
			i = (i - 1) / 2
			d++
		}
		return d
	}
	for _, n := range []int{31, 32, 33, 63, 64, 65, 100} {
		mk := func(f func(i int) int) {
			a := make([]int, n)
			for i := range a {
				a[i] = f(i)
			}
			// make it heap-ordered whatever f was: a child is at least its parent
			for i := 1; i < n; i++ {
				if a[i] < a[(i-1)/2] {
					a[i] = a[(i-1)/2]
				}
			}
			out = append(out, a)
		}
		mk(func(i int) int { return 0 })              // all tied
		mk(func(i int) int { return depth(i) })       // one priority per level
		mk(func(i int) int { return i })              // all distinct, array order
		mk(func(i int) int { return depth(i) + i%2 }) // left children tie with the level, right ones with the next
		mk(func(i int) int {                          // the right subtree of the root far above the left one
			j := i
			for j > 2 {
				j = (j - 1) / 2
			}
			if j == 2 {
				return 50 + depth(i)
			}
			return depth(i)
		})
		mk(func(i int) int { // the LEFT subtree far above the right one (the last element sits left)
			j := i
			for j > 2 {
				j = (j - 1) / 2
			}
			if j == 1 {
				return 50 + depth(i)
			}
			return depth(i)
		})
	}
	return out
}

// queuesFrom: every single Remove / Update / Pop on the queue built from each heap array, then a
// full observation and a complete drain. Update uses every priority 1..prios (prios <= 0: below the
// minimum, every distinct priority present, between, above the maximum).
func queuesFrom(run *vx.Run, jobs [][]int, prios int) (states, trans int64) {
	var mu sync.Mutex
	vx.Parallel(len(jobs), func(ji int) {
		arr := jobs[ji]
		n := len(arr)
		build := func() (xheap.PriorityQueue[int, int], map[int]int) {
			init := make([]kp, n)
			model := map[int]int{}
			for i, p := range arr {
				init[i] = kp{K: i, P: p + 1}
				model[i] = p + 1
			}
			return xheap.NewPriorityQueue[int, int](func(a, b int) bool { return a < b }, init), model
		}
		var local int64
		check := func(what string, q xheap.PriorityQueue[int, int], model map[int]int) {
			local++
			bad := ""
			if p := vx.Catch(func() {
				if q.Len() != len(model) {
					bad = fmt.Sprintf("Len()=%d, model %d", q.Len(), len(model))
					return
				}
				for k := 0; k < n; k++ {
					pr, ok := model[k]
					if q.Contains(k) != ok || q.Priority(k) != pr {
						bad = fmt.Sprintf("Contains/Priority(k%d) = %v/%d, model %v/%d", k, q.Contains(k), q.Priority(k), ok, pr)
						return
					}
				}
				last := 0
				for len(model) > 0 {
					min := 1 << 30
					for _, pr := range model {
						if pr < min {
							min = pr
						}
					}
					k := q.Pop()
					pr, ok := model[k]
					if !ok || pr != min || pr < last {
						bad = fmt.Sprintf("draining: Pop returned k%d (priority %d, held %v) while the minimum held priority is %d", k, pr, ok, min)
						return
					}
					last = pr
					delete(model, k)
				}
				if q.Len() != 0 {
					bad = "queue not empty after draining the model"
				}
			}); p != nil {
				bad = fmt.Sprintf("panic: %v", p)
			}
			if bad != "" {
				run.Violate(vx.Violation{Signature: "pq/big-heap/" + strings.SplitN(what, "(", 2)[0], Detail: fmt.Sprintf("queue built from heap array (priorities) %v, then %s: %s", arr, what, bad),
					Replay: map[string]any{"kind": "bigheap", "array": arr, "op": what}})
			}
		}
		for k := 0; k < n; k++ {
			q, model := build()
			q.Remove(k)
			delete(model, k)
			check(fmt.Sprintf("Remove(k%d)", k), q, model)
			var ups []int
			if prios > 0 {
				for p := 1; p <= prios; p++ {
					ups = append(ups, p)
				}
			} else {
				// the model priorities are arr[i]+1 >= 1: 0 is below all of them; the key's parent's,
				// children's and own priority, the overall maximum and one above it
				ups = []int{0, arr[k] + 1, arr[n-1] + 1, arr[n-1] + 2}
				if k > 0 {
					ups = append(ups, arr[(k-1)/2]+1, arr[(k-1)/2])
				}
				for _, c := range []int{2*k + 1, 2*k + 2} {
					if c < n {
						ups = append(ups, arr[c]+1, arr[c]+2)
					}
				}
			}
			seenUp := map[int]bool{}
			for _, p := range ups {
				if seenUp[p] {
					continue
				}
				seenUp[p] = true
				q, model := build()
				q.Update(k, p)
				model[k] = p
				check(fmt.Sprintf("Update(k%d,p=%d)", k, p), q, model)
			}
		}
		q, model := build()
		check("nothing", q, model)
		mu.Lock()
		states++
		trans += local
		mu.Unlock()
	})
	return
}

// deepHeaps: Heap built from large initial slices in structured orders, some pushes, then drained.
func deepHeaps(run *vx.Run) (states, trans int64) {
	for _, n := range []int{31, 32, 33, 63, 64, 65, 100} {
		orders := map[string]func(i int) int{
			"descending": func(i int) int { return n - i },
			"ascending":  func(i int) int { return i },
			"sawtooth":   func(i int) int { return (i * 7) % 13 },
			"two-valued": func(i int) int { return (i / 3) % 2 },
			"last-small": func(i int) int {
				if i == n-1 {
					return -1
				}
				return i % 5
			},
		}
		for name, f := range orders {
			for _, cmpCtor := range []bool{false, true} {
				init := make([]int, n)
				for i := range init {
					init[i] = f(i)
				}
				model := append([]int(nil), init...)
				var h xheap.Heap[int]
				if cmpCtor {
					h = xheap.NewCmp(func(a, b int) int { return a - b }, init)
				} else {
					h = xheap.New(func(a, b int) bool { return a < b }, init)
				}
				bad := ""
				if p := vx.Catch(func() {
					for _, x := range []int{-5, 3, 1000} {
						h.Push(x)
						model = append(model, x)
					}
					sort.Ints(model)
					if h.Len() != len(model) {
						bad = fmt.Sprintf("Len()=%d, model %d", h.Len(), len(model))
						return
					}
					for i, want := range model {
						if pk := h.Peek(); pk != want {
							bad = fmt.Sprintf("Peek before pop #%d = %d, want %d", i, pk, want)
							return
						}
						if got := h.Pop(); got != want {
							bad = fmt.Sprintf("pop #%d = %d, want %d", i, got, want)
							return
						}
						trans++
					}
					if h.Len() != 0 {
						bad = "heap not empty after draining"
					}
				}); p != nil {
					bad = fmt.Sprintf("panic: %v", p)
				}
				states++
				if bad != "" {
					run.Violate(vx.Violation{Signature: "heap/deep-heap", Detail: fmt.Sprintf("Heap built from %d items in %s order (NewCmp=%v), 3 pushes, drain: %s", n, name, cmpCtor, bad),
						Replay: map[string]any{"kind": "deepheap", "n": n, "order": name, "cmp": cmpCtor}})
				}
			}
		}
	}
	return
}

func allLists(symbols, maxLen int) [][]int {
	out := [][]int{{}}
	prev := [][]int{{}}
	for l := 1; l <= maxLen; l++ {
		var cur [][]int
		for _, p := range prev {
			for s := 0; s < symbols; s++ {
				cur = append(cur, append(append([]int(nil), p...), s))
			}
		}
		out = append(out, cur...)
		prev = cur
	}
	return out
}

func main() {
	run := vx.Start("C05")
	heapMax, heapPrios, heapInit := 7, 3, 6
	pqKeys, pqPrios, pqInitLen, pqInitKeys, pqInitPrios := 6, 3, 4, 3, 2
	if !run.Quick() {
		heapMax, heapInit = 10, 8
		pqKeys, pqInitLen = 8, 5
	}
	hInits := allLists(heapPrios, heapInit)
	var pInits [][]kp
	for _, l := range allLists(pqInitKeys*pqInitPrios, pqInitLen) {
		var x []kp
		for _, s := range l {
			x = append(x, kp{K: s / pqInitPrios, P: 1 + s%pqInitPrios})
		}
		pInits = append(pInits, x)
	}
	if run.Replay != "" {
		var rp struct {
			Kind string    `json:"kind"`
			Cmp  bool      `json:"cmp"`
			Ops  []seqx.Op `json:"ops"`
			Arr  []int     `json:"array"`
		}
		run.LoadReplay(&rp)
		var r seqx.Result
		if rp.Kind == "bigheap" {
			// every single operation on the queue built from the recorded heap array
			prios := 3
			if len(rp.Arr) > 15 {
				prios = 0
			}
			queuesFrom(run, [][]int{rp.Arr}, prios)
			run.Finish()
		}
		if rp.Kind == "deepheap" {
			deepHeaps(run)
			run.Finish()
		}
		if rp.Kind == "pq-coarse" {
			cs := pqSys{cmp: false, keys: 5, prios: 4, inits: [][]kp{nil, {{K: 0, P: 1}, {K: 1, P: 2}, {K: 2, P: 3}}}, coarse: true}
			fmt.Println(cs.pathStr(rp.Ops))
			if r := cs.Run(rp.Ops); r.Viol != nil {
				run.Violate(vx.Violation{Signature: r.Viol.Sig, Detail: r.Viol.Detail, Replay: rp})
			}
			run.Finish()
		}
		if rp.Kind == "heap" {
			s := heapSys{cmp: rp.Cmp, maxSize: heapMax, prios: heapPrios, inits: allLists(heapPrios, 8)}
			fmt.Println(s.pathStr(rp.Ops))
			r = s.Run(rp.Ops)
		} else {
			var inits [][]kp
			for _, l := range allLists(pqInitKeys*pqInitPrios, 5) {
				var x []kp
				for _, s := range l {
					x = append(x, kp{K: s / pqInitPrios, P: 1 + s%pqInitPrios})
				}
				inits = append(inits, x)
			}
			s := pqSys{cmp: rp.Cmp, keys: 7, prios: pqPrios, inits: inits}
			fmt.Println(s.pathStr(rp.Ops))
			r = s.Run(rp.Ops)
		}
		if r.Viol != nil {
			run.Violate(vx.Violation{Signature: r.Viol.Sig, Detail: r.Viol.Detail, Replay: rp})
		}
		run.Finish()
	}
	configs := []map[string]any{}
	for _, cmp := range []bool{false, true} {
		hs := heapSys{cmp: cmp, maxSize: heapMax, prios: heapPrios, inits: hInits}
		var seeds [][]seqx.Op
		for i := range hInits {
			seeds = append(seeds, []seqx.Op{{K: opInit, A: int16(i)}})
		}
		st := seqx.ExploreFrom(hs, seeds, seqx.Config{Deadline: run.Deadline})
		run.AddCounts(st.States, st.Transitions+int64(len(seeds)), st.Transitions+int64(len(seeds)))
		if st.Capped != "" {
			run.Capped("heap: " + st.Capped)
		}
		configs = append(configs, map[string]any{"container": "Heap", "NewCmp": cmp, "initial_slices": len(seeds), "max_size": heapMax, "priorities": heapPrios, "states": st.States, "transitions": st.Transitions, "depth": st.MaxDepth})
		for _, p := range st.SamplePaths {
			run.Sample(map[string]any{"container": "Heap", "ops": hs.pathStr(p)})
		}
		if len(st.Viols) > 0 {
			v := st.Viols[0]
			run.Violate(vx.Violation{Signature: v.Viol.Sig, Detail: fmt.Sprintf("%s; history %v", v.Viol.Detail, hs.pathStr(v.Path)),
				Replay: map[string]any{"kind": "heap", "cmp": cmp, "ops": v.Path, "readable": hs.pathStr(v.Path)}})
		}
		ps := pqSys{cmp: cmp, keys: pqKeys, prios: pqPrios, inits: pInits}
		seeds = nil
		for i := range pInits {
			seeds = append(seeds, []seqx.Op{{K: opInit, A: int16(i)}})
		}
		st = seqx.ExploreFrom(ps, seeds, seqx.Config{Deadline: run.Deadline})
		run.AddCounts(st.States, st.Transitions+int64(len(seeds)), st.Transitions+int64(len(seeds)))
		if st.Capped != "" {
			run.Capped("queue: " + st.Capped)
		}
		configs = append(configs, map[string]any{"container": "PriorityQueue", "NewPriorityQueueCmp": cmp, "initial_lists": len(seeds), "keys": pqKeys, "priorities": pqPrios, "states": st.States, "transitions": st.Transitions, "depth": st.MaxDepth})
		for _, p := range st.SamplePaths {
			run.Sample(map[string]any{"container": "PriorityQueue", "ops": ps.pathStr(p)})
		}
		if len(st.Viols) > 0 {
			v := st.Viols[0]
			run.Violate(vx.Violation{Signature: v.Viol.Sig, Detail: fmt.Sprintf("%s; history %v", v.Viol.Detail, ps.pathStr(v.Path)),
				Replay: map[string]any{"kind": "pq", "cmp": cmp, "ops": v.Path, "readable": ps.pathStr(v.Path)}})
		}
	}
	{
		// a non-injective priority order: 4 priorities in 2 ranks
		cs := pqSys{cmp: false, keys: 4, prios: 4, inits: [][]kp{nil, {{K: 0, P: 1}, {K: 1, P: 2}, {K: 2, P: 3}}}, coarse: true}
		if !run.Quick() {
			cs.keys = 5
		}
		st := seqx.ExploreFrom(cs, [][]seqx.Op{{{K: opInit, A: 0}}, {{K: opInit, A: 1}}}, seqx.Config{Deadline: run.Deadline})
		run.AddCounts(st.States, st.Transitions, st.Transitions)
		if st.Capped != "" {
			run.Capped("queue (coarse order): " + st.Capped)
		}
		configs = append(configs, map[string]any{"container": "PriorityQueue", "order": "coarse: priorities 1,2 tie and 3,4 tie", "keys": cs.keys, "priorities": 4, "states": st.States, "transitions": st.Transitions})
		if len(st.Viols) > 0 {
			v := st.Viols[0]
			run.Violate(vx.Violation{Signature: v.Viol.Sig, Detail: fmt.Sprintf("[coarse priority order] %s; history %v", v.Viol.Detail, cs.pathStr(v.Path)),
				Replay: map[string]any{"kind": "pq-coarse", "ops": v.Path, "readable": cs.pathStr(v.Path)}})
		}
	}
	lo, hi := 8, 13
	if !run.Quick() {
		hi = 16
	}
	bs, bt := bigQueues(run, lo, hi, 3)
	run.AddCounts(bs, bt, bt)
	ds, dt := queuesFrom(run, deepArrays(), 0)
	run.AddCounts(ds, dt, dt)
	hs, ht := deepHeaps(run)
	run.AddCounts(hs, ht, ht)
	configs = append(configs, map[string]any{"container": "PriorityQueue", "mode": "structured heap arrays of sizes 31..100 (sift paths of depth 5-6) x every single Remove / Update (to the priorities of the key's parent, children, the extremes and beyond) / Pop, then full observation and drain", "heap_states": ds, "transitions": dt})
	configs = append(configs, map[string]any{"container": "Heap", "mode": "initial slices of sizes 31..100 in structured orders (heapify), a few pushes, complete drain against a sorted copy", "heap_states": hs, "transitions": ht})
	configs = append(configs, map[string]any{"container": "PriorityQueue", "mode": "every heap-ordered array of sizes 8.." + fmt.Sprint(hi) + " over 3 priorities x every single Remove/Update/Pop, then full observation and drain", "heap_states": bs, "transitions": bt})
	run.Set("configurations", configs)
	run.Set("rule", "state = heap array order as exposed by Iterate (priorities; ids relabelled); closure over Push/Pop resp. Update/Remove/Pop from every initial slice; full observation (Len, Peek, Contains/Priority of every key incl. absent, Iterate) after every transition")
	run.Assume("items are opaque to the heap except through less/compare (parametricity), so tied items are interchangeable in the state key")
	run.Finish()
}
