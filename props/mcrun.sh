#!/bin/bash
# props/mcrun.sh <ID> <quick|thorough|--replay file>: builds an engine-E2 check: transforms the CURRENT
# sources of the concurrent juniper packages, errgroup and the property's scenario package onto the mc
# runtime, compiles with -overlay (and -modfile for the transformed errgroup) and runs the check binary.
set -u
id="$1"; shift
lc=$(echo "$id" | tr 'A-Z' 'a-z')
cd "$VERIF_ROOT"
B=$PWD/.build/mc/$lc
rm -rf "$B"; mkdir -p "$B" bin
( cd rewriter && GOFLAGS=-mod=mod go build -o ../bin/gomc-rewrite . ) || { echo "INFRASTRUCTURE ERROR: transformer build failed" >&2; exit 2; }
GOMC_DIR=$PWD bin/gomc-rewrite -out "$B" -tags verif,mcbuild \
  github.com/bradenaw/juniper/stream github.com/bradenaw/juniper/chans github.com/bradenaw/juniper/parallel \
  github.com/bradenaw/juniper/xsync github.com/bradenaw/juniper/xtime github.com/bradenaw/juniper/iterator \
  golang.org/x/sync/errgroup verif/props/sx verif/props/$lc/scn $(cat props/$lc/mcpkgs 2>/dev/null) > "$B/rewrite.log" 2>&1 || { cat "$B/rewrite.log" >&2; echo "INFRASTRUCTURE ERROR: transformation failed" >&2; exit 2; }
sed -e "s|^replace golang.org/x/sync => .*|replace golang.org/x/sync => $B/xsync|" -e "s|=> /repo\$|=> ${VERIF_REPO:-/repo}|" go.mc.mod > "$B/go.mod"
cp go.sum "$B/go.sum"
go build -tags verif,mcbuild -modfile="$B/go.mod" -overlay "$B/overlay.json" -o "bin/${lc}_mc" ./props/$lc 2> "$B/build.log" || { cat "$B/build.log" >&2; echo "INFRASTRUCTURE ERROR: build of transformed code failed" >&2; exit 2; }
# Optional free-running -race side pass over the same scenario bodies (props/<id>/racemain.go,
# build tag !mcbuild): sampling; only a data-race report counts (exit status 66).
have_race=no
if [ -f "props/$lc/racemain.go" ] && [ "${1:-}" != "--replay" ]; then
  go build -race -tags verif -o "bin/${lc}_race" ./props/$lc 2> "$B/race-build.log" || { cat "$B/race-build.log" >&2; echo "INFRASTRUCTURE ERROR: -race build failed" >&2; exit 2; }
  have_race=yes
fi
if [ "${1:-}" = "--build" ]; then exit 0; fi
if [ "${1:-}" = "--replay" ]; then
  if [ "$(jq -r '.replay.mode // empty' "$2" 2>/dev/null)" = race ] && [ -f "props/$lc/racemain.go" ]; then
    # a data-race report: re-run the free-running -race pass (sampling: the report may need several runs)
    go build -race -tags verif -o "bin/${lc}_race" ./props/$lc || exit 2
    for i in 1 2 3 4 5; do
      GORACE="exitcode=66 halt_on_error=1" VERIF_PART="$B/race-replay.json" VERIF_PART_NAME=race-pass "bin/${lc}_race" quick > "$B/race.log" 2>&1
      if [ $? = 66 ]; then head -40 "$B/race.log"; echo "VIOLATION property=$id replay=$2"; exit 1; fi
    done
    echo "$id replay: no data race reported in 5 free-running passes"; exit 0
  fi
  exec "bin/${lc}_mc" --replay "$2"
fi
run_race() { # $1 = part file
  GORACE="exitcode=66 halt_on_error=1" VERIF_PART="$1" VERIF_PART_NAME=race-pass "bin/${lc}_race" "${tier}" > "$B/race.log" 2>&1; rc=$?
  if [ $rc = 66 ]; then
    head -60 "$B/race.log" >&2
    printf '{"name":"race-pass","cov":{"race_pass":"DATA RACE reported"},"samples":[],"assumptions":[],"viols":[{"signature":"data-race","detail":"the Go race detector reported a data race in a free-running execution of the scenario bodies (first report in .build/mc/%s/race.log)","replay":{"mode":"race"}}],"known":[],"capped":[],"states":1,"transitions":1,"validated":1,"wall":0}' "$lc" > "$1"
  elif [ $rc != 0 ]; then
    # the free-running pass itself broke (e.g. the library panicked in a goroutine it started): the pass
    # is a side condition only, so this is recorded, and the controlled part's verdict stands
    tail -5 "$B/race.log" >&2
    printf '{"name":"race-pass","cov":{"race_pass":"not completed: the free-running executions crashed (exit status %s)"},"samples":[],"assumptions":[],"viols":[],"known":[],"capped":["race pass not completed"],"states":0,"transitions":0,"validated":0,"wall":0}' "$rc" > "$1"
  fi
}
tier="${1:-quick}"
if [ -n "${VERIF_PART:-}" ]; then
  # called by a multi-part check: it merges; the race part goes next to the given part file
  outer="$VERIF_PART"
  "bin/${lc}_mc" "$@" || exit 2
  if [ $have_race = yes ]; then run_race "${outer%.json}.race.json"; fi
  exit 0
fi
if [ $have_race = no ]; then exec "bin/${lc}_mc" "$@"; fi
go build -o bin/vxmerge ./cmd/vxmerge || exit 2
VERIF_PART="$B/mc.json" VERIF_PART_NAME=controlled "bin/${lc}_mc" "$@" || { echo "INFRASTRUCTURE ERROR: controlled part failed" >&2; exit 2; }
run_race "$B/race.json"
exec bin/vxmerge "$id" "$tier" "$B/mc.json" "$B/race.json"
