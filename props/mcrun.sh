#!/bin/bash
# props/mcrun.sh <ID> <quick|thorough|--replay file>: builds an engine-E2 check: transforms the CURRENT
# sources of the concurrent juniper packages, errgroup and the property's scenario package onto the mc
# runtime, compiles with -overlay (and -modfile for the transformed errgroup) and runs the check binary.
set -u
id="$1"; shift
lc=$(echo "$id" | tr 'A-Z' 'a-z')
cd "$VERIF_ROOT"
B=$PWD/.build/mc/$lc
rm -rf "$B"; mkdir -p "$B" bin
( cd rewriter && go build -o ../bin/gomc-rewrite . ) || { echo "INFRASTRUCTURE ERROR: transformer build failed" >&2; exit 2; }
GOMC_DIR=$PWD bin/gomc-rewrite -out "$B" -tags verif,mcbuild \
  github.com/bradenaw/juniper/stream github.com/bradenaw/juniper/chans github.com/bradenaw/juniper/parallel \
  github.com/bradenaw/juniper/xsync github.com/bradenaw/juniper/xtime github.com/bradenaw/juniper/iterator \
  golang.org/x/sync/errgroup verif/props/sx verif/props/$lc/scn $(cat props/$lc/mcpkgs 2>/dev/null) > "$B/rewrite.log" 2>&1 || { cat "$B/rewrite.log" >&2; echo "INFRASTRUCTURE ERROR: transformation failed" >&2; exit 2; }
sed "s|^replace golang.org/x/sync => .*|replace golang.org/x/sync => $B/xsync|" go.mc.mod > "$B/go.mod"
cp go.sum "$B/go.sum"
go build -tags verif,mcbuild -modfile="$B/go.mod" -overlay "$B/overlay.json" -o "bin/${lc}_mc" ./props/$lc 2> "$B/build.log" || { cat "$B/build.log" >&2; echo "INFRASTRUCTURE ERROR: build of transformed code failed" >&2; exit 2; }
if [ "${1:-}" = "--build" ]; then exit 0; fi
if [ "${1:-}" = "--replay" ]; then exec "bin/${lc}_mc" --replay "$2"; fi
exec "bin/${lc}_mc" "$@"
