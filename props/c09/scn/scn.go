// Package scn selects, for C09, the goroutine-backed stream scenarios (Batch, Merge, MapStream) in
// which the consumer stops at every kind of point (end, error, early Close, Close from outside while
// background work is in progress). Their oracles check the instrumented source's Next/Close log:
// closed exactly once by the time Close returns, never during or before a Next.
package scn

import (
	"strings"

	c11 "verif/props/c11/scn"
	c12 "verif/props/c12/scn"
	c14 "verif/props/c14/scn"
)

type Scenario struct {
	Name      string
	Body      func()
	TimerMode int
	Procs     int
}

func All() []Scenario {
	var out []Scenario
	for _, p := range c11.All() {
		n := p.Name()
		if !strings.Contains(n, "+") && (p.CloseAfter >= 0 || p.ExternalClose || len(p.Script) <= 3) {
			out = append(out, Scenario{Name: n, Body: p.Body(), TimerMode: p.Mode})
		}
	}
	for _, s := range c12.All() {
		if strings.HasPrefix(s.Name, "streamMerge") {
			out = append(out, Scenario{Name: s.Name, Body: s.Body})
		}
	}
	for _, s := range c14.All() {
		if strings.HasPrefix(s.Name, "mapStream") && !strings.Contains(s.Name, "vvvvv") {
			out = append(out, Scenario{Name: s.Name, Body: s.Body, Procs: s.Procs})
		}
	}
	return out
}
