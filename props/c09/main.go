//go:build verif && !mcbuild

package main

// The sequential part of C09 is the same program as C08's (props/c08), invoked with "C09".
func main() { panic("use bin/c08seq C09") }
