//go:build mcbuild

// C09, concurrent part. Engine E2.
package main

import (
	"strings"
	"time"

	"verif/mc"
	"verif/mc/mcx"
	"verif/props/c09/scn"
)

func main() {
	var scs []mcx.Scenario
	for _, s := range scn.All() {
		procs := s.Procs
		if procs == 0 {
			procs = 2
		}
		sc := mcx.Scenario{Name: s.Name, Body: s.Body, Cfg: mc.Config{TimerMode: s.TimerMode, GOMAXPROCS: procs}, Bound: 2, ThoroughBound: 3, SwitchBound: 3, Family: strings.SplitN(s.Name, "/", 2)[0], MaxTime: 2 * time.Minute}
		if strings.Contains(s.Name, "p=3") || strings.Contains(s.Name, "vvvv") {
			sc.Bound, sc.ThoroughBound = 1, 2
		}
		if strings.Contains(s.Name, "many-inputs") {
			// 17 inputs: the point is the number, not the interleaving
			sc.Bound, sc.ThoroughBound, sc.SwitchBound = 0, 1, 1
		}
		scs = append(scs, sc)
	}
	mcx.Main("C09", scs, []string{"the scenario bodies are shared with C10/C11/C12/C14; see those checks for their bounds"})
}
