//go:build verif

// Checks C01, C02 and C03 on the real container/tree package. The binary is built once per B-tree
// fan-out (the value of the constant branchFactor is replaced through a build overlay, see
// cmd/bfpatch and props/tree/run.sh); which fan-out this binary has is read from the hook.
//
//	tree <C01|C02|C03> <quick|thorough>
//	tree <C01|C02|C03> --replay <file>
package main

import (
	"fmt"
	"os"
	"runtime/debug"
	"sort"
	"strings"
	"sync"

	"verif/internal/seqx"
	"verif/internal/tr"
	"verif/internal/vx"
)

const (
	opPut    = iota // A = key
	opDelete        // A = key
	opCreate        // A = index into the iterator spec table
	opNext          // A = iterator index
	opSeed          // A = index into the seed table (fan-out 16 searches)
)

var fanout = tr.New(tr.Config{Ctor: "cmp", Order: "nat"}).Snapshot().BranchFactor

// ------------------------------------------------------------------------------------------------
// closure system for C01 / C03 (no iterators in the state)

type closureSys struct {
	cfg  tr.Config
	keys []int
	ev   *events // C03: structural event table, fed on every transition
}

func (s closureSys) opStr(o seqx.Op) string {
	if o.K == opPut {
		return fmt.Sprintf("Put(%d)", o.A)
	}
	return fmt.Sprintf("Delete(%d)", o.A)
}

func (s closureSys) pathStr(p []seqx.Op) []string {
	out := make([]string, len(p))
	for i, o := range p {
		out[i] = s.opStr(o)
	}
	return out
}

func (s closureSys) replay(path []seqx.Op) (*tr.T, *seqx.Viol) {
	t := tr.New(s.cfg)
	t.Budget = 100000
	for i, o := range path {
		o := o
		what := s.opStr(o)
		var before flat
		if s.ev != nil && i == len(path)-1 {
			before = flatten(t.Snapshot())
		}
		if s.ev != nil && i == len(path)-1 {
			defer func() { classify(s.ev, before, flatten(t.Snapshot()), o.K == opDelete) }()
		}
		if v := t.Guard(what, func() {
			if o.K == opPut {
				t.Put(int(o.A))
			} else {
				t.Delete(int(o.A))
			}
		}); v != nil {
			if i != len(path)-1 {
				v.Sig = "prefix/" + v.Sig
			}
			return t, v
		}
	}
	return t, nil
}

func (s closureSys) Run(path []seqx.Op) (res seqx.Result) {
	t, v := s.replay(path)
	res.Checks = 1
	if v != nil {
		res.Viol = v
		return
	}
	// cheap per-transition check of the last operation's effect
	if len(path) > 0 {
		o := path[len(path)-1]
		var bad *seqx.Viol
		if g := t.Guard("lookup", func() {
			if n := t.Len(); n != len(t.Model) {
				bad = &seqx.Viol{Sig: "c01/Len", Detail: fmt.Sprintf("after %s Len()=%d, model %d", s.opStr(o), n, len(t.Model))}
			}
			_, want := t.Model[s.cfg.Class(int(o.A))]
			if got := t.Contains(int(o.A)); got != want {
				bad = &seqx.Viol{Sig: "c01/Contains", Detail: fmt.Sprintf("after %s Contains(%d)=%v", s.opStr(o), o.A, got)}
			}
		}); g != nil {
			res.Viol = g
			return
		}
		if bad != nil {
			res.Viol = bad
			return
		}
	}
	res.Key = t.Key()
	for _, k := range s.keys {
		res.Next = append(res.Next, seqx.Op{K: opPut, A: int16(k)}, seqx.Op{K: opDelete, A: int16(k)})
	}
	return
}

// structural events between two consecutive states, for the vacuity table
type events struct {
	mu sync.Mutex
	m  map[string]int64
}

func (e *events) add(k string) {
	e.mu.Lock()
	if e.m == nil {
		e.m = map[string]int64{}
	}
	e.m[k]++
	e.mu.Unlock()
}

type flat struct {
	n     []int
	depth []int
	keys  []string
}

func flatten(s tr.Snap) flat {
	var f flat
	var walk func(n *tr.Node, d int)
	walk = func(n *tr.Node, d int) {
		if n == nil || n.ID < 0 {
			return
		}
		f.n = append(f.n, n.N)
		f.depth = append(f.depth, d)
		f.keys = append(f.keys, fmt.Sprint(n.Keys[:clampN(n.N, len(n.Keys))]))
		for _, c := range n.Children {
			walk(c, d+1)
		}
	}
	walk(s.Root, 1)
	return f
}

func clampN(n, m int) int {
	if n < 0 {
		return 0
	}
	if n > m {
		return m
	}
	return n
}

func maxDepth(f flat) int {
	d := 0
	for _, x := range f.depth {
		if x > d {
			d = x
		}
	}
	return d
}

func classify(ev *events, before, after flat, isDelete bool) {
	db, da := maxDepth(before), maxDepth(after)
	nb, na := len(before.n), len(after.n)
	switch {
	case na > nb:
		ev.add("split")
		if na-nb >= 2 && !(da > db && na-nb == 2) {
			ev.add("cascade_split")
		}
		if da > db {
			ev.add("root_split")
			if na-nb >= 3 {
				ev.add("cascade_split")
			}
		}
	case na < nb:
		ev.add("merge")
		if da < db {
			ev.add("root_collapse")
			if nb-na >= 3 {
				ev.add("cascade_merge")
			}
		} else if nb-na >= 2 {
			ev.add("cascade_merge")
		}
	case isDelete:
		// same node count: a steal shows as one node losing a key while a node at the same depth
		// keeps its count but changes its key set.
		donor, recv := -1, -1
		for i := range before.n {
			if after.n[i] == before.n[i]-1 {
				donor = i
			}
		}
		if donor >= 0 {
			for i := range before.n {
				if i != donor && after.n[i] == before.n[i] && before.keys[i] != after.keys[i] && before.depth[i] == before.depth[donor] {
					recv = i
				}
			}
		}
		if donor >= 0 && recv >= 0 {
			if donor > recv {
				ev.add("steal_from_right_sibling")
			} else {
				ev.add("steal_from_left_sibling")
			}
			if before.depth[donor] < maxDepth(before) {
				ev.add("steal_between_internal_nodes")
			}
		}
	}
}

func probes(u int) []int {
	var p []int
	for k := 0; k <= u+1; k++ {
		p = append(p, k)
	}
	return p
}

type closureCfg struct {
	cfg tr.Config
}

func closureConfigs(quick bool) []tr.Config {
	if quick {
		return []tr.Config{
			{Ctor: "less", Order: "nat", U: 12},
			{Ctor: "cmp", Order: "rev", U: 12},
			{Ctor: "cmp", Order: "coarse", U: 23},
			{Set: true, Ctor: "less", Order: "coarse", U: 23},
			{Set: true, Ctor: "cmp", Order: "nat", U: 12},
		}
	}
	var out []tr.Config
	for _, set := range []bool{false, true} {
		for _, ctor := range []string{"less", "cmp"} {
			for _, order := range []string{"nat", "rev", "coarse"} {
				u := 14
				if order == "coarse" {
					u = 27
				}
				out = append(out, tr.Config{Set: set, Ctor: ctor, Order: order, U: u})
			}
		}
	}
	return out
}

func runClosure(run *vx.Run, prop string) {
	ev := &events{}
	var configs []map[string]any
	for _, cfg := range closureConfigs(run.Quick()) {
		if x := os.Getenv("TREE_U"); x != "" {
			fmt.Sscan(x, &cfg.U)
		}
		// Larger fan-outs need more keys to reach height 3.
		if fanout >= 5 && cfg.Order != "coarse" {
			cfg.U += 2
		} else if fanout >= 5 {
			cfg.U += 4
		}
		var keys []int
		for k := 1; k <= cfg.U; k++ {
			keys = append(keys, k)
		}
		s := closureSys{cfg: cfg, keys: keys}
		if prop == "C03" {
			s.ev = ev
		}
		// one bound position per equivalence class (the tree sees keys only through the comparator),
		// plus one below and one above the universe
		var bounds []int
		seenClass := map[int]bool{}
		for k := 0; k <= cfg.U+2; k++ {
			if c := cfg.Class(k); !seenClass[c] {
				seenClass[c] = true
				bounds = append(bounds, k)
			}
		}
		if cfg.Order == "rev" {
			for i, j := 0, len(bounds)-1; i < j; i, j = i+1, j-1 {
				bounds[i], bounds[j] = bounds[j], bounds[i]
			}
		}
		maxStates := 400000
		if !run.Quick() {
			maxStates = 3000000
		}
		var depthSeen, nodesSeen int
		var shapeMu sync.Mutex
		st := seqx.Explore(s, seqx.Config{Deadline: run.Deadline, MaxStates: maxStates, OnNewState: func(path []seqx.Op) *seqx.Viol {
			t, v := s.replay(path)
			if v != nil {
				return v
			}
			if prop == "C01" {
				if v := t.ObserveC01(bounds, probes(cfg.U)); v != nil {
					return v
				}
				t2, _ := s.replay(path)
				return t2.CheckFootprint()
			}
			// C03
			v, sh := t.CheckC03(probes(cfg.U), false)
			if v != nil {
				return v
			}
			shapeMu.Lock()
			if sh.Depth > depthSeen {
				depthSeen = sh.Depth
			}
			if sh.Nodes > nodesSeen {
				nodesSeen = sh.Nodes
			}
			shapeMu.Unlock()
			return nil
		}})
		run.AddCounts(st.States, st.Transitions, st.Transitions)
		if st.Capped != "" {
			run.Capped(cfg.String() + ": " + st.Capped)
		}
		c := map[string]any{"config": cfg.String(), "fanout": fanout, "states": st.States, "transitions": st.Transitions, "bfs_depth": st.MaxDepth}
		if prop == "C03" {
			c["max_tree_depth"] = depthSeen
			c["max_nodes"] = nodesSeen
		}
		configs = append(configs, c)
		for _, p := range st.SamplePaths {
			run.Sample(map[string]any{"config": cfg.String(), "fanout": fanout, "ops": s.pathStr(p)})
		}
		if len(st.Viols) > 0 {
			v := st.Viols[0]
			run.Violate(vx.Violation{Signature: v.Viol.Sig, Detail: fmt.Sprintf("[fan-out %d, %s] %s; history %v", fanout, cfg, v.Viol.Detail, s.pathStr(v.Path)),
				Replay: map[string]any{"mode": "closure", "fanout": fanout, "config": cfg, "ops": v.Path, "readable": s.pathStr(v.Path)}})
		}
	}
	run.Set("closure_configs", configs)
	if prop == "C03" {
		run.Set("structural_events", ev.m)
	}
}

// ------------------------------------------------------------------------------------------------
// seeded depth-bounded search (used at the shipped fan-out 16)

type seed struct {
	name string
	ops  []seqx.Op
}

func fillAsc(n int) []seqx.Op {
	var o []seqx.Op
	for i := 1; i <= n; i++ {
		o = append(o, seqx.Op{K: opPut, A: int16(2 * i)})
	}
	return o
}

func fillDesc(n int) []seqx.Op {
	var o []seqx.Op
	for i := n; i >= 1; i-- {
		o = append(o, seqx.Op{K: opPut, A: int16(2 * i)})
	}
	return o
}

func fillSaw(n int) []seqx.Op {
	var o []seqx.Op
	lo, hi := 1, n
	for lo <= hi {
		o = append(o, seqx.Op{K: opPut, A: int16(2 * lo)})
		lo++
		if lo <= hi {
			o = append(o, seqx.Op{K: opPut, A: int16(2 * hi)})
			hi--
		}
	}
	return o
}

// applyOps runs ops unguarded: a panic propagates to the caller (see the recover in main).
func applyOps(t *tr.T, ops []seqx.Op) {
	for _, o := range ops {
		if o.K == opPut {
			t.Put(int(o.A))
		} else {
			t.Delete(int(o.A))
		}
	}
}

// drainLeaves appends deletes that bring every leaf down to minKVs keys (no restructuring happens:
// a leaf above the minimum just loses a key).
func drainLeaves(cfg tr.Config, ops []seqx.Op) []seqx.Op {
	t := tr.New(cfg)
	applyOps(t, ops)
	s := t.Snapshot()
	var walk func(n *tr.Node)
	walk = func(n *tr.Node) {
		if n == nil {
			return
		}
		leaf := n.Children[0] == nil
		if leaf && n != s.Root {
			for i := 0; i < n.N-s.MinKVs; i++ {
				ops = append(ops, seqx.Op{K: opDelete, A: int16(n.Keys[i])})
			}
		}
		for _, c := range n.Children {
			walk(c)
		}
	}
	walk(s.Root)
	return ops
}

func makeSeeds(cfg tr.Config, quick bool, prop string) []seed {
	sizes := []int{15, 16, 17, 127, 128, 129, 136, 137, 255, 256}
	if quick && prop == "C01" {
		sizes = []int{16, 17, 128, 129, 137, 256}
	}
	if !quick {
		sizes = []int{15, 16, 17, 31, 32, 33, 127, 128, 129, 135, 136, 137, 143, 144, 255, 256, 257, 300}
	}
	drained := []int{24, 129, 137, 145, 257}
	if quick && prop == "C01" {
		drained = []int{24, 137}
	}
	if fanout != 16 {
		// scaled fan-outs: these sizes give trees of height 4 to 6, deeper than the shipped
		// fan-out reaches with a thousand keys
		sizes = []int{15, 16, 17, 31, 33, 64, 65}
		drained = []int{17, 33}
		if !quick {
			sizes = []int{7, 8, 15, 16, 17, 31, 32, 33, 63, 64, 65, 127, 129}
			drained = []int{17, 33, 65}
		}
	}
	var out []seed
	for _, n := range sizes {
		out = append(out, seed{fmt.Sprintf("asc%d", n), fillAsc(n)})
		out = append(out, seed{fmt.Sprintf("desc%d", n), fillDesc(n)})
		if n%2 == 0 || !quick {
			out = append(out, seed{fmt.Sprintf("saw%d", n), fillSaw(n)})
		}
	}
	for _, n := range drained {
		out = append(out, seed{fmt.Sprintf("asc%d+leaves-minimal", n), drainLeaves(cfg, fillAsc(n))})
		out = append(out, seed{fmt.Sprintf("desc%d+leaves-minimal", n), drainLeaves(cfg, fillDesc(n))})
	}
	return out
}

// focus computes the structural focus alphabet of a tree: first and last key of every node (every
// separator is one of them) and a fresh key in the gap on either side.
func focus(t *tr.T) (dels []int, puts []int) {
	seenD, seenP := map[int]bool{}, map[int]bool{}
	s := t.Snapshot()
	var walk func(n *tr.Node)
	walk = func(n *tr.Node) {
		if n == nil || n.N == 0 {
			return
		}
		for _, k := range []int{n.Keys[0], n.Keys[n.N-1], n.Keys[n.N/2]} {
			if !seenD[k] {
				seenD[k] = true
				dels = append(dels, k)
			}
			for _, f := range []int{k - 1, k + 1} {
				if _, present := t.Model[t.Cfg.Class(f)]; !present && f > 0 && !seenP[f] {
					seenP[f] = true
					puts = append(puts, f)
				}
			}
		}
		for _, c := range n.Children {
			walk(c)
		}
	}
	walk(s.Root)
	sort.Ints(dels)
	sort.Ints(puts)
	return
}

type seededSys struct {
	cfg   tr.Config
	seeds []seed
	prop  string
	ev    *events
	// alphabet per seed, computed once
	alpha [][]seqx.Op
}

func (s *seededSys) opStr(o seqx.Op) string {
	switch o.K {
	case opSeed:
		return "seed:" + s.seeds[o.A].name
	case opPut:
		return fmt.Sprintf("Put(%d)", o.A)
	}
	return fmt.Sprintf("Delete(%d)", o.A)
}

func (s *seededSys) pathStr(p []seqx.Op) []string {
	out := make([]string, len(p))
	for i, o := range p {
		out[i] = s.opStr(o)
	}
	return out
}

func (s *seededSys) Run(path []seqx.Op) (res seqx.Result) {
	t := tr.New(s.cfg)
	t.Budget = 1000000
	sd := path[0].A
	var before tr.Snap
	for i, o := range path {
		o := o
		if i == len(path)-1 && s.prop == "C03" && i > 0 {
			before = t.Snapshot()
		}
		if v := t.Guard(s.opStr(o), func() {
			switch o.K {
			case opSeed:
				applyOps(t, s.seeds[o.A].ops)
			case opPut:
				t.Put(int(o.A))
			case opDelete:
				t.Delete(int(o.A))
			}
		}); v != nil {
			res.Viol = v
			return
		}
	}
	res.Checks = 1
	last := path[len(path)-1]
	if s.prop == "C03" {
		dels, puts := []int{}, []int{}
		if last.K != opSeed {
			dels = []int{int(last.A), int(last.A) - 2, int(last.A) + 2}
			puts = []int{int(last.A) - 1, int(last.A) + 1}
		}
		v, _ := t.CheckC03(append(dels, puts...), true)
		if v != nil {
			res.Viol = v
			return
		}
		if before.Root != nil {
			classify(s.ev, flatten(before), flatten(t.Snapshot()), last.K == opDelete)
		}
	} else {
		// C01 observation restricted to the neighbourhood of the touched key plus whole-content scans
		k := int(last.A)
		if last.K == opSeed {
			k = 2
		}
		bounds := []int{k - 3, k - 1, k, k + 1, k + 4}
		if v := t.ObserveC01(bounds, []int{k - 2, k - 1, k, k + 1, k + 2}); v != nil {
			res.Viol = v
			return
		}
	}
	res.Key = "x"
	res.Next = s.alpha[sd]
	return
}

func runSeeded(run *vx.Run, prop string, depth int) {
	cfgs := []tr.Config{{Ctor: "cmp", Order: "nat", U: 1 << 14}}
	if prop == "C01" {
		cfgs = append(cfgs, tr.Config{Set: true, Ctor: "less", Order: "nat", U: 1 << 14})
	}
	ev := &events{}
	var table []map[string]any
	for _, cfg := range cfgs {
		s := &seededSys{cfg: cfg, seeds: makeSeeds(cfg, run.Quick(), prop), prop: prop, ev: ev}
		// C03: the invariant after every single operation of the seed fills themselves
		if prop == "C03" {
			for _, sd := range s.seeds {
				t := tr.New(cfg)
				prev := flatten(t.Snapshot())
				for i, o := range sd.ops {
					applyOps(t, []seqx.Op{o})
					v, _ := t.CheckC03([]int{int(o.A)}, true)
					run.AddCounts(1, 1, 1)
					if v != nil {
						run.Violate(vx.Violation{Signature: v.Sig, Detail: fmt.Sprintf("[fan-out %d, %s] %s; during seed fill %s at operation %d (%s)", fanout, cfg, v.Detail, sd.name, i, s.opStr(o)),
							Replay: map[string]any{"mode": "seedfill", "fanout": fanout, "config": cfg, "seed": sd.name, "upto": i + 1}})
						break
					}
					cur := flatten(t.Snapshot())
					classify(ev, prev, cur, o.K == opDelete)
					prev = cur
				}
			}
		}
		var seeds [][]seqx.Op
		for i, sd := range s.seeds {
			t := tr.New(cfg)
			applyOps(t, sd.ops)
			dels, puts := focus(t)
			var a []seqx.Op
			for _, k := range dels {
				a = append(a, seqx.Op{K: opDelete, A: int16(k)})
			}
			for _, k := range puts {
				a = append(a, seqx.Op{K: opPut, A: int16(k)})
			}
			s.alpha = append(s.alpha, a)
			seeds = append(seeds, []seqx.Op{{K: opSeed, A: int16(i)}})
		}
		// plain fills get one level less than the drained ("every leaf minimal") seeds, where a
		// single delete already restructures and the second/third one cascades
		var plain, drained [][]seqx.Op
		for i, sd := range s.seeds {
			if strings.Contains(sd.name, "minimal") {
				drained = append(drained, seeds[i])
			} else {
				plain = append(plain, seeds[i])
			}
		}
		st := seqx.Enumerate(s, drained, depth, seqx.Config{Deadline: run.Deadline})
		st2 := seqx.Enumerate(s, plain, depth-1, seqx.Config{Deadline: run.Deadline})
		st.States += st2.States
		st.Transitions += st2.Transitions
		st.Viols = append(st.Viols, st2.Viols...)
		st.SamplePaths = append(st.SamplePaths, st2.SamplePaths...)
		if st.Capped == "" {
			st.Capped = st2.Capped
		}
		run.AddCounts(st.States, st.Transitions, st.Transitions)
		if st.Capped != "" {
			run.Capped("seeded " + cfg.String() + ": " + st.Capped)
		}
		var names []string
		for _, sd := range s.seeds {
			names = append(names, sd.name)
		}
		table = append(table, map[string]any{"config": cfg.String(), "fanout": fanout, "seeds": names, "depth_drained_seeds": depth, "depth_plain_fills": depth - 1, "sequences": st.Transitions})
		for _, p := range st.SamplePaths {
			run.Sample(map[string]any{"config": cfg.String(), "fanout": fanout, "ops": s.pathStr(p)})
		}
		if len(st.Viols) > 0 {
			v := st.Viols[0]
			run.Violate(vx.Violation{Signature: v.Viol.Sig, Detail: fmt.Sprintf("[fan-out %d, %s] %s; history %v", fanout, cfg, v.Viol.Detail, s.pathStr(v.Path)),
				Replay: map[string]any{"mode": "seeded", "fanout": fanout, "config": cfg, "quick_seeds": run.Quick(), "ops": v.Path, "readable": s.pathStr(v.Path)}})
		}
	}
	run.Set("seeded_search", table)
	if prop == "C03" {
		if fanout == 16 {
			run.Set("structural_events", ev.m)
		} else {
			run.Set("structural_events_deep_trees", ev.m)
		}
	}
}

// ------------------------------------------------------------------------------------------------
// C02: product of the tree with live iterators

type monitor struct {
	spec      tr.IterSpec
	hasPrev   bool
	prev      int // representative key of the previously yielded class
	stable    map[int]bool
	exhausted bool
}

type productSys struct {
	cfg      tr.Config
	keys     []int
	specs    []tr.IterSpec
	maxIters int
}

func (s productSys) opStr(o seqx.Op) string {
	switch o.K {
	case opPut:
		return fmt.Sprintf("Put(%d)", o.A)
	case opDelete:
		return fmt.Sprintf("Delete(%d)", o.A)
	case opCreate:
		return "it:=" + s.specs[o.A].String()
	}
	return fmt.Sprintf("it%d.Next()", o.A)
}

func (s productSys) pathStr(p []seqx.Op) []string {
	out := make([]string, len(p))
	for i, o := range p {
		out[i] = s.opStr(o)
	}
	return out
}

func inBounds(cfg tr.Config, sp tr.IterSpec, k int) bool {
	if sp.Iterate {
		return true
	}
	c := func(a, b int) int { return cfgCmp(cfg, a, b) }
	if sp.LoKind == tr.Inc && c(k, sp.Lo) < 0 {
		return false
	}
	if sp.LoKind == tr.Exc && c(k, sp.Lo) <= 0 {
		return false
	}
	if sp.HiKind == tr.Inc && c(k, sp.Hi) > 0 {
		return false
	}
	if sp.HiKind == tr.Exc && c(k, sp.Hi) >= 0 {
		return false
	}
	return true
}

func cfgCmp(cfg tr.Config, a, b int) int {
	switch cfg.Order {
	case "rev":
		return b - a
	case "coarse":
		return a/2 - b/2
	}
	return a - b
}

type prodInst struct {
	t     *tr.T
	iters []tr.Iter
	mons  []*monitor
}

// step applies one operation and runs the C02 oracle for it.
func (s productSys) step(p *prodInst, o seqx.Op) *seqx.Viol {
	t := p.t
	cfg := s.cfg
	switch o.K {
	case opPut:
		return t.Guard(s.opStr(o), func() { t.Put(int(o.A)) })
	case opDelete:
		c := cfg.Class(int(o.A))
		for _, m := range p.mons {
			delete(m.stable, c)
		}
		return t.Guard(s.opStr(o), func() { t.Delete(int(o.A)) })
	case opCreate:
		sp := s.specs[o.A]
		var it tr.Iter
		if v := t.Guard(s.opStr(o), func() { it = t.NewIter(sp) }); v != nil {
			return v
		}
		m := &monitor{spec: sp, stable: map[int]bool{}}
		for c := range t.Model {
			m.stable[c] = true
		}
		p.iters = append(p.iters, it)
		p.mons = append(p.mons, m)
		return nil
	}
	// Next
	it, m := p.iters[o.A], p.mons[o.A]
	var k, val int
	var ok bool
	if v := t.Guard("Next", func() { k, val, ok = it.Next() }); v != nil {
		v.Sig = "c02/" + v.Sig
		v.Detail = fmt.Sprintf("%s: %s", m.spec, v.Detail)
		return v
	}
	dir := 1
	if m.spec.Reverse {
		dir = -1
	}
	fail := func(sig, format string, a ...any) *seqx.Viol {
		return &seqx.Viol{Sig: "c02/" + sig, Detail: fmt.Sprintf("%s: ", m.spec) + fmt.Sprintf(format, a...) + fmt.Sprintf(" (collection now %v)", t.Sorted())}
	}
	beyondPrev := func(x int) bool { return !m.hasPrev || dir*cfgCmp(cfg, x, m.prev) > 0 }
	if m.exhausted {
		if ok {
			return fail("exhaustion-not-sticky", "yielded %d after having reported exhaustion", k)
		}
		return nil
	}
	if !ok {
		m.exhausted = true
		for c := range m.stable {
			rep := t.Model[c][0]
			if inBounds(cfg, m.spec, rep) && beyondPrev(rep) {
				return fail("skipped-at-end", "reported exhaustion but key %d, present since before the previous yield, was never yielded", rep)
			}
		}
		return nil
	}
	e, present := t.Model[cfg.Class(k)]
	if !present {
		return fail("yielded-absent-key", "yielded key %d which is not present", k)
	}
	if !cfg.Set && val != e[1] {
		return fail("stale-value", "yielded key %d with value %d, current value is %d", k, val, e[1])
	}
	if !inBounds(cfg, m.spec, k) {
		return fail("out-of-bounds", "yielded key %d outside the bounds", k)
	}
	if m.hasPrev && dir*cfgCmp(cfg, k, m.prev) <= 0 {
		return fail("not-monotone", "yielded key %d after %d", k, m.prev)
	}
	for c := range m.stable {
		rep := t.Model[c][0]
		if inBounds(cfg, m.spec, rep) && beyondPrev(rep) && dir*cfgCmp(cfg, rep, k) < 0 {
			return fail("skipped", "yielded %d and skipped key %d, which has been present since before the previous yield", k, rep)
		}
	}
	m.hasPrev, m.prev = true, k
	m.stable = map[int]bool{}
	for c := range t.Model {
		m.stable[c] = true
	}
	return nil
}

func (s productSys) replay(path []seqx.Op) (*prodInst, *seqx.Viol) {
	p := &prodInst{t: tr.New(s.cfg)}
	p.t.Budget = 20000
	for i, o := range path {
		if v := s.step(p, o); v != nil {
			if i != len(path)-1 {
				v.Sig = "prefix/" + v.Sig
			}
			return p, v
		}
	}
	return p, nil
}

func (s productSys) Run(path []seqx.Op) (res seqx.Result) {
	p, v := s.replay(path)
	res.Checks = 1
	if v != nil {
		res.Viol = v
		return
	}
	var sb strings.Builder
	sb.WriteString(p.t.Key())
	for i, it := range p.iters {
		c := it.Cursor()
		m := p.mons[i]
		var st []int
		for x := range m.stable {
			st = append(st, x)
		}
		sort.Ints(st)
		prev := -1
		if m.hasPrev {
			prev = s.cfg.Class(m.prev)
		}
		fmt.Fprintf(&sb, "|%s:%v,%v,%v,%v,%d,%d,%v,%d,%d,%v;%d,%v,%v", m.spec, c.Known, c.Backward, c.HasWhile, c.WhileDone, c.Node, c.DetachedN, c.DetachedKeys, c.I, c.K, c.GenCurrent, prev, m.exhausted, st)
	}
	res.Key = sb.String()
	for _, k := range s.keys {
		res.Next = append(res.Next, seqx.Op{K: opPut, A: int16(k)}, seqx.Op{K: opDelete, A: int16(k)})
	}
	if len(p.iters) < s.maxIters {
		for i := range s.specs {
			// second iterator: only kinds with the opposite direction of the first, to keep the product small
			if len(p.iters) == 1 && s.specs[i].Reverse == p.mons[0].spec.Reverse {
				continue
			}
			res.Next = append(res.Next, seqx.Op{K: opCreate, A: int16(i)})
		}
	}
	for i, m := range p.mons {
		// two calls after exhaustion are enough to observe stickiness; the monitor state then
		// no longer changes, so further calls lead to already-seen states anyway.
		_ = m
		res.Next = append(res.Next, seqx.Op{K: opNext, A: int16(i)})
	}
	return
}

func c02Specs(u int, quick bool) []tr.IterSpec {
	specs := []tr.IterSpec{{Iterate: true}, {Reverse: true}}
	lo, hi := 1, u-2
	for _, rev := range []bool{false, true} {
		for lk := tr.Unb; lk <= tr.Exc; lk++ {
			for hk := tr.Unb; hk <= tr.Exc; hk++ {
				if lk == tr.Unb && hk == tr.Unb {
					continue
				}
				specs = append(specs, tr.IterSpec{Reverse: rev, LoKind: lk, Lo: lo, HiKind: hk, Hi: hi})
			}
		}
	}
	return specs
}

func runProduct(run *vx.Run) {
	type pc struct {
		cfg      tr.Config
		specs    []tr.IterSpec
		maxIters int
	}
	var pcs []pc
	// 7 keys are the fewest with which a height-3 tree exists at fan-outs 3 and 4 (every node then
	// holds a single key, so every delete cascades through merges of internal nodes)
	uMain, uBounded := 7, 5
	if fanout == 4 {
		uMain = 6 // the 7-key product exceeds the quick tier's state cap at this fan-out
	}
	if fanout >= 5 {
		uMain, uBounded = 8, 7
	}
	if !run.Quick() {
		uMain++
		uBounded++
	}
	all := c02Specs(uBounded, run.Quick())
	pcs = append(pcs,
		pc{tr.Config{Ctor: "cmp", Order: "nat", U: uMain}, []tr.IterSpec{{Iterate: true}, {Reverse: true}}, 1},
		pc{tr.Config{Ctor: "less", Order: "nat", U: uBounded}, all[2:], 1},
		// reversed order: the zero-valued key is the LARGEST, so it lives in right-hand nodes
		pc{tr.Config{Ctor: "less", Order: "rev", U: uMain - 1}, []tr.IterSpec{{Iterate: true}, {Reverse: true}}, 1},
		pc{tr.Config{Set: true, Ctor: "cmp", Order: "nat", U: uBounded}, []tr.IterSpec{{Iterate: true}, {Reverse: true, LoKind: tr.Inc, Lo: 1, HiKind: tr.Exc, Hi: uBounded - 1}}, 1},
		pc{tr.Config{Ctor: "cmp", Order: "coarse", U: uBounded + 2}, []tr.IterSpec{{Iterate: true}, {Reverse: true, LoKind: tr.Exc, Lo: 3, HiKind: tr.Inc, Hi: uBounded}}, 1},
	)
	if !run.Quick() {
		pcs = append(pcs, pc{tr.Config{Ctor: "cmp", Order: "nat", U: uBounded - 1}, []tr.IterSpec{{Iterate: true}, {Reverse: true}, {LoKind: tr.Exc, Lo: 2, HiKind: tr.Inc, Hi: uBounded - 1}, {Reverse: true, LoKind: tr.Inc, Lo: 2, HiKind: tr.Exc, Hi: uBounded - 1}}, 2})
	}
	var table []map[string]any
	for _, c := range pcs {
		// the product universe includes key 0, the key type's zero value (vacated slots hold it)
		var keys []int
		for k := 0; k < c.cfg.U; k++ {
			keys = append(keys, k)
		}
		s := productSys{cfg: c.cfg, keys: keys, specs: c.specs, maxIters: c.maxIters}
		maxStates := 1500000
		if !run.Quick() {
			maxStates = 12000000
		}
		st := seqx.Explore(s, seqx.Config{Deadline: run.Deadline, MaxStates: maxStates})
		run.AddCounts(st.States, st.Transitions, st.Transitions)
		if st.Capped != "" {
			run.Capped(c.cfg.String() + ": " + st.Capped)
		}
		var names []string
		for _, sp := range c.specs {
			names = append(names, sp.String())
		}
		table = append(table, map[string]any{"config": c.cfg.String(), "fanout": fanout, "iterators": names, "simultaneous": c.maxIters, "states": st.States, "transitions": st.Transitions, "bfs_depth": st.MaxDepth})
		for _, p := range st.SamplePaths {
			run.Sample(map[string]any{"config": c.cfg.String(), "fanout": fanout, "ops": s.pathStr(p)})
		}
		if len(st.Viols) > 0 {
			v := st.Viols[0]
			run.Violate(vx.Violation{Signature: v.Viol.Sig, Detail: fmt.Sprintf("[fan-out %d, %s] %s; history %v", fanout, c.cfg, v.Viol.Detail, s.pathStr(v.Path)),
				Replay: map[string]any{"mode": "product", "fanout": fanout, "config": c.cfg, "specs": c.specs, "max_iters": c.maxIters, "ops": v.Path, "readable": s.pathStr(v.Path)}})
		}
	}
	run.Set("product_configs", table)
}

// C02 at the shipped fan-out: iterator parked on every structural boundary of a seeded tree,
// mutations from the focus alphabet, then iteration continued.
func runProductSeeded(run *vx.Run) {
	cfg := tr.Config{Ctor: "cmp", Order: "nat", U: 1 << 14}
	sizes := []string{"asc17", "asc129", "desc137", "asc129+leaves-minimal", "asc137+leaves-minimal", "desc257+leaves-minimal", "saw256"}
	if run.Quick() {
		sizes = []string{"asc17", "asc129+leaves-minimal", "desc137", "asc145+leaves-minimal"}
	}
	if fanout != 16 {
		sizes = []string{"asc17", "desc33", "asc33+leaves-minimal", "saw64"}
		if run.Quick() {
			sizes = []string{"asc33+leaves-minimal"}
		}
	}
	all := makeSeeds(cfg, false, "C02")
	var cases int64
	var mu sync.Mutex
	var table []map[string]any
	for _, name := range sizes {
		var sd *seed
		for i := range all {
			if all[i].name == name {
				sd = &all[i]
			}
		}
		if sd == nil {
			continue
		}
		base := tr.New(cfg)
		applyOps(base, sd.ops)
		dels, puts := focus(base)
		var muts []seqx.Op
		for _, k := range dels {
			muts = append(muts, seqx.Op{K: opDelete, A: int16(k)})
		}
		for _, k := range puts {
			muts = append(muts, seqx.Op{K: opPut, A: int16(k)})
		}
		type job struct {
			k0  int
			rev bool
			a   int
		}
		var jobs []job
		for _, k0 := range dels {
			for _, rev := range []bool{false, true} {
				for a := 0; a <= 2; a++ {
					jobs = append(jobs, job{k0, rev, a})
				}
			}
		}
		var firstViol *vx.Violation
		var seedCases int64
		vx.Parallel(len(jobs), func(ji int) {
			if run.Expired() {
				return
			}
			j := jobs[ji]
			sp := tr.IterSpec{LoKind: tr.Inc, Lo: j.k0, HiKind: tr.Inc, Hi: j.k0 + 44}
			if j.rev {
				sp = tr.IterSpec{Reverse: true, LoKind: tr.Inc, Lo: j.k0 - 44, HiKind: tr.Inc, Hi: j.k0}
			}
			s := productSys{cfg: cfg, specs: []tr.IterSpec{sp}, maxIters: 1}
			near := func(o seqx.Op) bool { d := int(o.A) - j.k0; return d >= -12 && d <= 12 }
			local := int64(0)
			for _, m1 := range muts {
				if !near(m1) && !(int(m1.A)-j.k0 > -60 && int(m1.A)-j.k0 < 60) {
					continue
				}
				m2s := []seqx.Op{{K: 255}}
				for _, m2 := range muts {
					if near(m2) && m2 != m1 {
						m2s = append(m2s, m2)
					}
				}
				for _, m2 := range m2s {
					local++
					p := &prodInst{t: tr.New(cfg)}
					p.t.Budget = 100000
					applyOps(p.t, sd.ops)
					hist := []string{"seed:" + sd.name}
					var v *seqx.Viol
					do := func(o seqx.Op) bool {
						hist = append(hist, s.opStr(o))
						v = s.step(p, o)
						return v == nil
					}
					ok := do(seqx.Op{K: opCreate, A: 0})
					for i := 0; ok && i < j.a; i++ {
						ok = do(seqx.Op{K: opNext})
					}
					if ok {
						ok = do(m1)
					}
					if ok && m2.K != 255 {
						ok = do(m2)
					}
					for i := 0; ok && i < 30 && !(p.mons[0].exhausted && i > 1); i++ {
						ok = do(seqx.Op{K: opNext})
					}
					if v != nil {
						mu.Lock()
						if firstViol == nil {
							firstViol = &vx.Violation{Signature: v.Sig, Detail: fmt.Sprintf("[fan-out %d, %s] %s; history %v", fanout, cfg, v.Detail, hist),
								Replay: map[string]any{"mode": "product-seeded", "fanout": fanout, "seed": sd.name, "k0": j.k0, "reverse": j.rev, "consumed": j.a, "m1": m1, "m2": m2, "readable": hist}}
						}
						mu.Unlock()
						return
					}
				}
			}
			mu.Lock()
			seedCases += local
			mu.Unlock()
		})
		cases += seedCases
		table = append(table, map[string]any{"seed": name, "fanout": fanout, "boundary_positions": len(dels), "mutation_alphabet": len(muts), "scenarios": seedCases})
		if firstViol != nil {
			run.Violate(*firstViol)
		}
		run.Sample(map[string]any{"fanout": fanout, "scenario": fmt.Sprintf("seed %s; it:=Range(Included(k0),Included(k0+44)) for k0 in first/middle/last key of every node; 0..2 Next; mutation m1 from the structural focus alphabet; optional m2 near k0; Next until exhaustion", name)})
	}
	if run.Expired() {
		run.Capped("time budget reached during seeded iterator scenarios")
	}
	run.AddCounts(cases, cases, cases)
	run.Set("seeded_iterator_scenarios", table)
	if fanout == 16 {
		runWraparound(run)
	}
}

// runWraparound: between two Next calls of a parked iterator, one mutation next to it followed by
// further mutations far away, so that the TOTAL number of structural modifications is exactly 2^8,
// 2^16 or 2*2^16 (or one off): a modification counter narrower than the number of modifications an
// iterator can live through must not make a stale cursor look fresh.
func runWraparound(run *vx.Run) {
	cfg := tr.Config{Ctor: "cmp", Order: "nat", U: 1 << 14}
	var cases int64
	totals := []int{255, 256, 257, 65535, 65536, 65537}
	if !run.Quick() {
		totals = append(totals, 131071, 131072, 196608, 1<<20)
	}
	for _, total := range totals {
		for _, rev := range []bool{false, true} {
			for _, nearDel := range []bool{true, false} {
				if !nearDel && total > 1000 && run.Quick() {
					continue
				}
				cases++
				sp := tr.IterSpec{Iterate: true}
				if rev {
					sp = tr.IterSpec{Reverse: true, LoKind: tr.Inc, Lo: 1, HiKind: tr.Inc, Hi: 400}
				}
				s := productSys{cfg: cfg, specs: []tr.IterSpec{sp}, maxIters: 1}
				p := &prodInst{t: tr.New(cfg)}
				p.t.Budget = 100000
				applyOps(p.t, fillAsc(40)) // keys 2..80, several leaves
				hist := []string{"seed:asc40"}
				var v *seqx.Viol
				do := func(o seqx.Op, record bool) bool {
					if record {
						hist = append(hist, s.opStr(o))
					}
					v = s.step(p, o)
					return v == nil
				}
				ok := do(seqx.Op{K: opCreate, A: 0}, true)
				for i := 0; ok && i < 5; i++ {
					ok = do(seqx.Op{K: opNext}, true)
				}
				// the iterator has yielded 2..10 (reverse: 80..72); mutate right in front of it
				k := 12
				if rev {
					k = 70
				}
				m := seqx.Op{K: opDelete, A: int16(k)}
				if !nearDel {
					m = seqx.Op{K: opPut, A: int16(k + 1)}
				}
				if ok {
					ok = do(m, true)
				}
				for i := 1; ok && i < total; i++ {
					o := seqx.Op{K: opPut, A: 9001}
					if i%2 == 0 {
						o.K = opDelete
					}
					ok = do(o, false)
				}
				hist = append(hist, fmt.Sprintf("(%d further Put/Delete of key 9001: %d structural modifications in all)", total-1, total))
				for i := 0; ok && i < 60 && !(p.mons[0].exhausted && i > 1); i++ {
					ok = do(seqx.Op{K: opNext}, true)
				}
				if v != nil {
					run.Violate(vx.Violation{Signature: v.Sig + "/after-" + fmt.Sprint(total) + "-modifications", Detail: fmt.Sprintf("[fan-out %d, %s] %s; history %v", fanout, cfg, v.Detail, hist),
						Replay: map[string]any{"mode": "wraparound", "fanout": fanout}})
					run.AddCounts(cases, cases, cases)
					return
				}
			}
		}
	}
	run.AddCounts(cases, cases, cases)
	run.Set("modification_counter_wraparound", fmt.Sprintf("an iterator parked across exactly %v structural modifications (one of them next to it), forward and reverse", totals))
}

// runScale: one tree grown to 70 000 keys (ascending, descending and a fixed scrambled order) and taken
// apart again, observed at the sizes where a count or index narrower than int would wrap. C01: Len,
// First/Last, complete forward and reverse iteration, Get of the keys around the check size. C03: the
// structural invariant (incl. the depth bound and the comparison bound) at the same points.
func runScale(run *vx.Run, prop string) {
	const n = 70000
	checkAt := map[int]bool{255: true, 256: true, 257: true, 32767: true, 32768: true, 65535: true, 65536: true, 65537: true, n: true, 0: true}
	orders := map[string]func(i int) int{
		"ascending":  func(i int) int { return i + 1 },
		"descending": func(i int) int { return n - i },
		"scrambled":  func(i int) int { return (i*30011)%n + 1 }, // 30011 is coprime to n: a permutation
	}
	var cases int64
	for _, name := range []string{"ascending", "descending", "scrambled"} {
		f := orders[name]
		for _, set := range []bool{false, true} {
			if set && name != "scrambled" {
				continue
			}
			cfg := tr.Config{Ctor: "cmp", Order: "nat", U: n + 1, Set: set}
			if name == "descending" {
				cfg.Ctor = "less"
			}
			t := tr.New(cfg)
			t.Budget = 1 << 40
			observe := func(what string) *seqx.Viol {
				cases++
				if prop == "C03" {
					m := len(t.Model)
					v, _ := t.CheckC03([]int{1, m / 2, m, m + 1}, true)
					return v
				}
				if got := t.Len(); got != len(t.Model) {
					return &seqx.Viol{Sig: "c01/Len", Detail: fmt.Sprintf("Len()=%d, model has %d keys", got, len(t.Model))}
				}
				sorted := t.Sorted()
				for _, rev := range []bool{false, true} {
					sp := tr.IterSpec{Iterate: true}
					if rev {
						sp = tr.IterSpec{Reverse: true, LoKind: tr.Unb, HiKind: tr.Unb}
					}
					var bad *seqx.Viol
					if g := t.Guard(sp.String(), func() {
						it := t.NewIter(sp)
						for i := 0; i <= len(sorted); i++ {
							k, val, ok := it.Next()
							j := i
							if rev {
								j = len(sorted) - 1 - i
							}
							if ok != (i < len(sorted)) || (ok && (k != sorted[j][1] || (!set && val != sorted[j][2]))) {
								bad = &seqx.Viol{Sig: "c01/" + map[bool]string{false: "Iterate", true: "RangeReverse"}[rev], Detail: fmt.Sprintf("item #%d of %s over %d keys is (%d,%d,%v)", i, sp, len(sorted), k, val, ok)}
								return
							}
						}
					}); g != nil {
						return g
					}
					if bad != nil {
						return bad
					}
				}
				if len(sorted) > 0 {
					fk, fv := t.First()
					lk, lv := t.Last()
					if fk != sorted[0][1] || lk != sorted[len(sorted)-1][1] || (!set && (fv != sorted[0][2] || lv != sorted[len(sorted)-1][2])) {
						return &seqx.Viol{Sig: "c01/FirstLast", Detail: fmt.Sprintf("First/Last = (%d,%d)/(%d,%d) with %d keys", fk, fv, lk, lv, len(sorted))}
					}
				}
				for _, k := range []int{1, len(sorted) / 2, len(sorted), n, n + 1} {
					e, present := t.Model[k]
					if t.Contains(k) != present || (!set && present && t.Get(k) != e[1]) {
						return &seqx.Viol{Sig: "c01/Get", Detail: fmt.Sprintf("Contains/Get(%d) disagree with the model (present %v) at %d keys", k, present, len(sorted))}
					}
				}
				return nil
			}
			report := func(v *seqx.Viol, what string) bool {
				if v == nil {
					return false
				}
				run.Violate(vx.Violation{Signature: "scale/" + v.Sig, Detail: fmt.Sprintf("[fan-out %d, %s, keys put in %s order, %s] %s", fanout, cfg, name, what, v.Detail), Replay: map[string]any{"mode": "scale", "fanout": fanout}})
				return true
			}
			for i := 0; i < n; i++ {
				t.Put(f(i))
				if checkAt[len(t.Model)] {
					if report(observe(""), fmt.Sprintf("grown to %d keys", len(t.Model))) {
						run.AddCounts(cases, cases, cases)
						return
					}
				}
			}
			// taken apart in another order than it was built
			for i := 0; i < n; i++ {
				t.Delete(f((i + n/3) % n))
				if checkAt[len(t.Model)] {
					if report(observe(""), fmt.Sprintf("shrunk to %d keys", len(t.Model))) {
						run.AddCounts(cases, cases, cases)
						return
					}
				}
			}
		}
	}
	run.AddCounts(cases, 4*2*n, 4*2*n)
	run.Set("scale", "trees grown to 70 000 keys in ascending, descending and scrambled order (Map and Set, less- and cmp-constructed) and taken apart in another order, observed at 255-257, 32 767/8, 65 535-65 537 and 70 000 keys")
}

func main() {
	prop := os.Args[1]
	os.Args = append(os.Args[:1], os.Args[2:]...)
	debug.SetGCPercent(800)
	run := vx.Start(prop)
	if run.Replay != "" {
		doReplay(run, prop)
	}
	run.Set("fanout", fanout)
	// The harness itself does not panic; a panic that escapes the guarded calls comes from the
	// library (e.g. while building a seed tree) and is a violation of "never panics".
	defer func() {
		if p := recover(); p != nil {
			run.Violate(vx.Violation{Signature: "crash/library-panic-outside-guard", Detail: fmt.Sprintf("[fan-out %d] panic while building or inspecting a tree: %v\n%s", fanout, p, debug.Stack()), Replay: map[string]any{"mode": "crash", "fanout": fanout}})
			run.Finish()
		}
	}()
	switch prop {
	case "C01":
		if fanout == 16 {
			d := 2
			if !run.Quick() {
				d = 3
			}
			runSeeded(run, prop, d)
			runScale(run, prop)
		} else {
			runClosure(run, prop)
			runSeeded(run, prop, 2) // deep trees (height 4-6) at the scaled fan-out
		}
		run.Set("rule", "closure: state = full node-structure dump of the real tree (values relabelled); every Put/Delete over the key universe in every state, alternating between two copies of the Map/Set value; full observation (Len, First, Last, Get/Contains of every key and two outside, Iterate, Range/RangeReverse for all 9 bound-kind pairs x all bound positions) and the write-footprint invariant on every state. fan-out 16: all operation sequences up to the depth over the structural focus alphabet from every seed tree")
	case "C03":
		if fanout == 16 {
			d := 2
			if !run.Quick() {
				d = 3
			}
			runSeeded(run, prop, d)
			runScale(run, prop)
		} else {
			runClosure(run, prop)
			runSeeded(run, prop, 2)
		}
		run.Set("rule", "same transitions as C01; after every single operation: occupancy, balance, ordering, parent links, size, zeroed vacated slots, depth bound and comparator-call bound for lookups of every probe key")
	case "C02":
		if fanout == 16 {
			runProductSeeded(run)
		} else {
			runProduct(run)
			runProductSeeded(run) // iterators parked in deep trees (height 4-6)
		}
		run.Set("rule", "state = tree dump x private cursor state of each live iterator x oracle monitor state; alphabet = Put/Delete of every key, iterator creation (at every reachable tree state), Next; per-Next oracle: no panic/spin, monotone, in bounds, present, current value, sticky exhaustion, no-skip rule")
	default:
		vx.Fatal("unknown property %s", prop)
	}
	run.Assume("keys are touched only through the comparator and values never inspected (parametricity): int keys and relabelled values stand for all types")
	run.Assume("the value of the constant branchFactor is a configuration parameter of otherwise unmodified source; fan-outs other than 16 are reached through a build overlay")
	run.Finish()
}

func doReplay(run *vx.Run, prop string) {
	var rp struct {
		Mode     string        `json:"mode"`
		Fanout   int           `json:"fanout"`
		Config   tr.Config     `json:"config"`
		Ops      []seqx.Op     `json:"ops"`
		Specs    []tr.IterSpec `json:"specs"`
		MaxIters int           `json:"max_iters"`
		Quick    bool          `json:"quick_seeds"`
	}
	run.LoadReplay(&rp)
	if rp.Fanout != fanout {
		fmt.Printf("replay recorded at fan-out %d, this binary has %d\n", rp.Fanout, fanout)
		os.Exit(3)
	}
	var v *seqx.Viol
	switch rp.Mode {
	case "closure":
		var keys []int
		for k := 1; k <= rp.Config.U; k++ {
			keys = append(keys, k)
		}
		s := closureSys{cfg: rp.Config, keys: keys}
		fmt.Println(s.pathStr(rp.Ops))
		for i := 1; i <= len(rp.Ops) && v == nil; i++ {
			t, pv := s.replay(rp.Ops[:i])
			v = pv
			if v == nil && prop == "C01" {
				v = t.ObserveC01(probes(rp.Config.U), probes(rp.Config.U))
				if v == nil {
					t2, _ := s.replay(rp.Ops[:i])
					v = t2.CheckFootprint()
				}
			} else if v == nil {
				v, _ = t.CheckC03(probes(rp.Config.U), false)
			}
		}
	case "seeded":
		s := &seededSys{cfg: rp.Config, seeds: makeSeeds(rp.Config, rp.Quick, prop), prop: prop, ev: &events{}}
		s.alpha = make([][]seqx.Op, len(s.seeds))
		fmt.Println(s.pathStr(rp.Ops))
		for i := 1; i <= len(rp.Ops) && v == nil; i++ {
			v = s.Run(rp.Ops[:i]).Viol
		}
	case "product":
		var keys []int
		for k := 1; k <= rp.Config.U; k++ {
			keys = append(keys, k)
		}
		s := productSys{cfg: rp.Config, keys: keys, specs: rp.Specs, maxIters: rp.MaxIters}
		fmt.Println(s.pathStr(rp.Ops))
		_, v = s.replay(rp.Ops)
	case "wraparound":
		runWraparound(run)
		run.Finish()
	case "scale":
		runScale(run, prop)
		run.Finish()
	case "product-seeded":
		// the scenario family is deterministic: re-run it (the recorded history is in 'readable')
		runProductSeeded(run)
		run.Finish()
	default:
		fmt.Println("replay of this mode: re-run the check; the recorded history is in the 'readable' member")
		os.Exit(3)
	}
	if v != nil {
		run.Violate(vx.Violation{Signature: v.Sig, Detail: v.Detail, Replay: rp})
	}
	run.Finish()
}
