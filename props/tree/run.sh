#!/bin/bash
# props/tree/run.sh <C01|C02|C03> quick|thorough | --replay <file>
# Builds the tree check once per B-tree fan-out from /repo's CURRENT btree.go (the value of the
# constant branchFactor is replaced in a copy that is injected with -overlay; /repo is not touched),
# runs every variant and merges the parts into the evidence file.
set -u
prop="$1"; shift
cd "$VERIF_ROOT"
B=.build/tree; mkdir -p $B bin
go build -o bin/bfpatch ./cmd/bfpatch && go build -o bin/vxmerge ./cmd/vxmerge || { echo "INFRASTRUCTURE ERROR: tool build failed" >&2; exit 2; }
build_variant() { # fanout
  local f=$1
  if [ "$f" = 16 ]; then
    go build -tags verif -o bin/tree_bf16 ./props/tree 2> $B/build16.log || return 2
    return 0
  fi
  mkdir -p $B/bf$f
  bin/bfpatch /repo/container/tree/btree.go $f $PWD/$B/bf$f/btree.go 2> $B/patch$f.log; rc=$?
  [ $rc = 0 ] || return $rc
  printf '{"Replace":{"/repo/container/tree/btree.go":"%s"}}' "$PWD/$B/bf$f/btree.go" > $B/bf$f/overlay.json
  go build -tags verif -overlay $B/bf$f/overlay.json -o bin/tree_bf$f ./props/tree 2> $B/build$f.log || return 2
}
if [ "${1:-}" = "--replay" ]; then
  f=$(jq -r '.replay.fanout // 16' "$2")
  build_variant $f || { cat $B/build$f.log >&2; echo "INFRASTRUCTURE ERROR: build failed" >&2; exit 2; }
  exec bin/tree_bf$f $prop --replay "$2"
fi
tier="${1:-quick}"
if [ "$tier" = quick ]; then fanouts="3 4 16"; else fanouts="3 4 5 6 16"; fi
if [ "$tier" = "--build" ]; then for f in 3 4 5 6 16; do build_variant $f; done; exit 0; fi
pids=""
for f in $fanouts; do ( build_variant $f; echo $? > $B/rc$f ) & pids="$pids $!"; done
wait $pids
parts=""
for f in $fanouts; do
  rc=$(cat $B/rc$f)
  part=$B/$prop.bf$f.json
  rm -f $part
  if [ "$rc" = 3 ]; then
    # constant not found: scaled configuration skipped, reported as a cap (not exhaustive)
    printf '{"name":"fanout%s","cov":{"skipped":"const branchFactor not found in btree.go"},"samples":[],"assumptions":[],"viols":[],"known":[],"capped":["fan-out %s configuration skipped: branchFactor constant not found"],"states":0,"transitions":0,"validated":0,"wall":0}' $f $f > $part
  elif [ "$rc" != 0 ]; then
    cat $B/build$f.log >&2; echo "INFRASTRUCTURE ERROR: build of fan-out $f variant failed" >&2; exit 2
  else
    VERIF_PART=$part VERIF_PART_NAME=fanout$f bin/tree_bf$f $prop $tier || { echo "INFRASTRUCTURE ERROR: fan-out $f run failed" >&2; exit 2; }
  fi
  parts="$parts $part"
done
exec bin/vxmerge $prop $tier $parts
