#!/bin/bash
# props/tree/run.sh <C01|C02|C03> quick|thorough | --replay <file>
# Builds the tree check once per B-tree fan-out from /repo's CURRENT btree.go (the value of the
# constant branchFactor is replaced in a copy that is injected with -overlay; /repo is not touched),
# runs every variant and merges the parts into the evidence file.
set -u
prop="$1"; shift
cd "$VERIF_ROOT"
lp=$(echo "$prop" | tr A-Z a-z)
# build directory and binaries are per property: the three tree checks may run side by side
B=.build/tree-$lp; mkdir -p $B bin
go build -o bin/bfpatch ./cmd/bfpatch && go build -o bin/vxmerge ./cmd/vxmerge || { echo "INFRASTRUCTURE ERROR: tool build failed" >&2; exit 2; }
build_variant() { # fanout
  local f=$1
  if [ "$f" = 16 ]; then
    go build -tags verif -o bin/tree_${lp}_bf16 ./props/tree 2> $B/build16.log || return 2
    return 0
  fi
  mkdir -p $B/bf$f
  bin/bfpatch $VERIF_REPO/container/tree/btree.go $f $PWD/$B/bf$f/btree.go 2> $B/patch$f.log; rc=$?
  [ $rc = 0 ] || return $rc
  printf '{"Replace":{"%s/container/tree/btree.go":"%s"}}' "$VERIF_REPO" "$PWD/$B/bf$f/btree.go" > $B/bf$f/overlay.json
  go build -tags verif -overlay $B/bf$f/overlay.json -o bin/tree_${lp}_bf$f ./props/tree 2> $B/build$f.log || return 2
}
if [ "${1:-}" = "--replay" ]; then
  f=$(jq -r '.replay.fanout // 16' "$2")
  build_variant $f || { cat $B/build$f.log >&2; echo "INFRASTRUCTURE ERROR: build failed" >&2; exit 2; }
  exec bin/tree_${lp}_bf$f $prop --replay "$2"
fi
tier="${1:-quick}"
if [ "$tier" = quick ]; then fanouts="3 4 16"; else fanouts="3 4 5 6 16"; fi
if [ "$tier" = "--build" ]; then
  for f in 3 4 5 6 16; do build_variant $f; done
  if [ "$prop" = C01 ]; then props/mcrun.sh C01 --build; go build -race -tags verif -o bin/c01_race ./props/c01; fi
  exit 0
fi
# the run's time budget is shared by the parts (one program per fan-out), not granted to each
if [ -z "${VERIF_BUDGET:-}" ]; then
  if [ "$tier" = quick ]; then export VERIF_BUDGET=3m; else export VERIF_BUDGET=20m; fi
fi
pids=""
for f in $fanouts; do ( build_variant $f; echo $? > $B/rc$f ) & pids="$pids $!"; done
wait $pids
parts=""
for f in $fanouts; do
  rc=$(cat $B/rc$f)
  part=$B/$prop.bf$f.json
  rm -f $part
  if [ "$rc" = 3 ]; then
    # constant not found: scaled configuration skipped, reported as a cap (not exhaustive)
    printf '{"name":"fanout%s","cov":{"skipped":"const branchFactor not found in btree.go"},"samples":[],"assumptions":[],"viols":[],"known":[],"capped":["fan-out %s configuration skipped: branchFactor constant not found"],"states":0,"transitions":0,"validated":0,"wall":0}' $f $f > $part
  elif [ "$rc" != 0 ]; then
    cat $B/build$f.log >&2; echo "INFRASTRUCTURE ERROR: build of fan-out $f variant failed" >&2; exit 2
  else
    VERIF_PART=$part VERIF_PART_NAME=fanout$f bin/tree_${lp}_bf$f $prop $tier || { echo "INFRASTRUCTURE ERROR: fan-out $f run failed" >&2; exit 2; }
  fi
  parts="$parts $part"
done
if [ "$prop" = C01 ]; then
  # last sentence of C01: concurrent Puts to present keys. Engine E2 part + free-running -race pass.
  props/mcrun.sh C01 --build || exit 2
  rm -f $B/C01.mc.json $B/C01.race.json
  VERIF_PART=$PWD/$B/C01.mc.json VERIF_PART_NAME=concurrent-puts bin/c01_mc $tier || { echo "INFRASTRUCTURE ERROR: concurrent part failed" >&2; exit 2; }
  parts="$parts $B/C01.mc.json"
  if go build -race -tags verif -o bin/c01_race ./props/c01 2> $B/race-build.log; then
    GORACE="exitcode=66 halt_on_error=1" VERIF_PART=$PWD/$B/C01.race.json VERIF_PART_NAME=race-pass bin/c01_race $tier > $B/race.log 2>&1; rc=$?
    if [ $rc = 66 ]; then
      head -40 $B/race.log >&2
      printf '{"name":"race-pass","cov":{"race_pass":"DATA RACE reported"},"samples":[],"assumptions":[],"viols":[{"signature":"treePut/data-race","detail":"the Go race detector reported a data race in a free-running execution of concurrent Puts to present keys and reads of other keys (see .build/tree/race.log)","replay":{"mode":"race"}}],"known":[],"capped":[],"states":1,"transitions":1,"validated":1,"wall":0}' > $B/C01.race.json
    elif [ $rc != 0 ]; then cat $B/race.log >&2; echo "INFRASTRUCTURE ERROR: race pass failed" >&2; exit 2; fi
    parts="$parts $B/C01.race.json"
  else
    cat $B/race-build.log >&2; echo "INFRASTRUCTURE ERROR: -race build failed" >&2; exit 2
  fi
fi
exec bin/vxmerge $prop $tier $parts
