//go:build verif

// C15: container iterators are snapshot-or-panic: no silently wrong iteration.
//
// Engine E1. For every reachable container state (closures of C04/C05, bounded), every iterator
// position j in [0,len], every mutation m1 from the quantifier's list and every second mutation m2
// (or none): create the iterator, consume j items, apply the mutations, continue to exhaustion or
// panic. Oracle: everything yielded is a correct prefix of the snapshot (sequence for the deque,
// multiset for heap/queue; snapshot taken at Iterate() or at the first Next()), exhaustion only
// after the whole snapshot, and once iteration is under way (j>=1) a mutation that adds or removes
// an element makes the next call panic.
package main

import (
	"fmt"
	"sort"
	"sync/atomic"

	"github.com/bradenaw/juniper/container/xheap"
	"github.com/bradenaw/juniper/iterator"

	"verif/internal/dq"
	"verif/internal/seqx"
	"verif/internal/vx"
)

var cases int64

// iterate calls Next up to limit times; returns items, whether it ended by exhaustion, and a panic.
func iterate[T any](it iterator.Iterator[T], limit int) (items []T, exhausted bool, p any) {
	p = vx.Catch(func() {
		for k := 0; k < limit; k++ {
			x, ok := it.Next()
			if !ok {
				exhausted = true
				return
			}
			items = append(items, x)
		}
	})
	return
}

// ---------------------------------------------------------------------------------------------
// deque

type dequeSys struct{ maxCap int }

func dqReplay(path []seqx.Op) *dq.D {
	d := dq.New()
	for _, o := range path {
		d.Apply(o)
	}
	return d
}

func (s dequeSys) Run(path []seqx.Op) (res seqx.Result) {
	d := dqReplay(path)
	if d.Real.VerifState().Cap > s.maxCap {
		return
	}
	res.Key = d.Key()
	res.Next = d.Enabled()
	return
}

func addsOrRemoves(o seqx.Op, lenBefore int) bool {
	switch o.K {
	case dq.OpPushFront, dq.OpPushBack:
		return true
	case dq.OpPopFront, dq.OpPopBack:
		return lenBefore > 0
	}
	return false
}

// seqMatches: got must equal a prefix of the snapshot where overwritten positions may show either
// the old or the new value.
func seqPrefix(got []int, alts [][]int) bool {
	if len(got) > len(alts) {
		return false
	}
	for i, x := range got {
		ok := false
		for _, a := range alts[i] {
			if a == x {
				ok = true
			}
		}
		if !ok {
			return false
		}
	}
	return true
}

func dequeScenarios(path []seqx.Op, maxLen int, secondOps bool) *seqx.Viol {
	base := dqReplay(path)
	n := len(base.Model)
	if n > maxLen {
		return nil
	}
	m1s := base.Enabled()
	for j := 0; j <= n; j++ {
		for _, m1 := range m1s {
			// second mutation alphabet depends on the state after m1; compute on a scratch replica
			scratch := dqReplay(path)
			scratch.Apply(m1)
			m2s := []seqx.Op{{K: 255}}
			if secondOps {
				m2s = append(m2s, scratch.Enabled()...)
			}
			for _, m2 := range m2s {
				atomic.AddInt64(&cases, 1)
				d := dqReplay(path)
				snapCreate := append([]int(nil), d.Model...)
				it := d.Real.Iterate()
				pre, ex, p := iterate(it, j)
				desc := func() string {
					s := fmt.Sprintf("deque %v (cap %d front %d), %d items consumed, then %s", snapCreate, d.Real.VerifState().Cap, d.Real.VerifState().Front, j, d.OpStr(m1))
					return s
				}
				if p != nil || ex || !eqInts(pre, snapCreate[:j]) {
					return &seqx.Viol{Sig: "deque/unchanged-iteration", Detail: fmt.Sprintf("iteration of an unchanged deque wrong: got %v exhausted=%v panic=%v, contents %v", pre, ex, p, snapCreate)}
				}
				// alternatives per position for the creation-time snapshot
				alts := make([][]int, len(snapCreate))
				for i, x := range snapCreate {
					alts[i] = []int{x}
				}
				mustPanic := false
				var names string
				for _, m := range []seqx.Op{m1, m2} {
					if m.K == 255 {
						continue
					}
					lenBefore := len(d.Model)
					idx := -1
					if m.K == dq.OpSet {
						idx = d.Index(m.A)
					}
					r, _ := d.Apply(m)
					names += r + " "
					if addsOrRemoves(m, lenBefore) {
						mustPanic = true
					}
					// A Set while no element was added/removed so far overwrites snapshot position idx.
					if m.K == dq.OpSet && idx >= 0 && idx < len(d.Model) && !mustPanic && idx < len(alts) {
						alts[idx] = append(alts[idx], d.Model[idx])
					}
				}
				snapFirstNext := append([]int(nil), d.Model...)
				post, exhausted, p2 := iterate(it, n+4)
				all := append(append([]int{}, pre...), post...)
				okCreate := seqPrefix(all, alts) && (!exhausted || len(all) == len(alts))
				okLate := false
				if j == 0 {
					// not started before the mutation: the snapshot may be taken at the first Next
					la := make([][]int, len(snapFirstNext))
					for i, x := range snapFirstNext {
						la[i] = []int{x}
					}
					okLate = seqPrefix(all, la) && (!exhausted || len(all) == len(la))
				}
				if !okCreate && !okLate {
					kind := "wrong-items"
					if exhausted && p2 == nil {
						kind = "silent-wrong-or-early-exhaustion"
					}
					return &seqx.Viol{Sig: "deque/" + kind + "/" + dq.OpNames[m1.K],
						Detail: fmt.Sprintf("%s [then %s]: iterator yielded %v (exhausted=%v panic=%v); snapshot was %v", desc(), names, all, exhausted, p2 != nil, snapCreate)}
				}
				if j >= 1 && mustPanic && (p2 == nil || len(post) > 0) {
					return &seqx.Viol{Sig: "deque/no-panic-after-add-remove/" + dq.OpNames[m1.K],
						Detail: fmt.Sprintf("%s [then %s]: an element was added or removed mid-iteration but the next call did not panic (yielded %v, exhausted=%v)", desc(), names, post, exhausted)}
				}
			}
		}
	}
	return nil
}

// ---------------------------------------------------------------------------------------------
// heap and priority queue: enumerate construction histories (every initial slice, then pushes/pops
// resp. updates) as BFS over array-order states like C05.

type item struct{ p, id int }

const (
	hInit = iota
	hPush
	hPop
	hGrow
	hShrink
	qUpdate
	qRemove
	qPop
	qGrow
	none = 255
)

type heapSys struct {
	maxSize int
	inits   [][]int
}

type heapInst struct {
	h     xheap.Heap[item]
	model []item
	next  int
}

func (s heapSys) build(path []seqx.Op) *heapInst {
	hi := &heapInst{}
	var init []item
	rest := path
	if len(path) > 0 && path[0].K == hInit {
		for _, p := range s.inits[path[0].A] {
			init = append(init, item{p, hi.next})
			hi.next++
		}
		rest = path[1:]
	}
	hi.model = append([]item(nil), init...)
	hi.h = xheap.New(func(a, b item) bool { return a.p < b.p }, init)
	for _, o := range rest {
		hi.apply(o)
	}
	return hi
}

func (hi *heapInst) apply(o seqx.Op) (name string, addRemove bool) {
	switch o.K {
	case hPush:
		x := item{int(o.A), hi.next}
		hi.next++
		hi.h.Push(x)
		hi.model = append(hi.model, x)
		return fmt.Sprintf("Push(p=%d)", o.A), true
	case hPop:
		if len(hi.model) == 0 {
			vx.Catch(func() { hi.h.Pop() })
			return "Pop(empty)", false
		}
		got := hi.h.Pop()
		for i := range hi.model {
			if hi.model[i] == got {
				hi.model = append(hi.model[:i:i], hi.model[i+1:]...)
				break
			}
		}
		return "Pop", true
	case hGrow:
		hi.h.Grow(int(o.A))
		return fmt.Sprintf("Grow(%d)", o.A), false
	case hShrink:
		hi.h.Shrink(int(o.A))
		return fmt.Sprintf("Shrink(%d)", o.A), false
	}
	return "", false
}

func (s heapSys) Run(path []seqx.Op) (res seqx.Result) {
	hi := s.build(path)
	arr, _, _ := iterate(hi.h.Iterate(), len(hi.model)+2)
	key := ""
	for _, x := range arr {
		key += fmt.Sprintf("%d,", x.p)
	}
	res.Key = key
	if len(hi.model) < s.maxSize {
		for p := 0; p < 3; p++ {
			res.Next = append(res.Next, seqx.Op{K: hPush, A: int16(p)})
		}
	}
	res.Next = append(res.Next, seqx.Op{K: hPop})
	return
}

func multisetOK[T comparable](got []T, snap []T, exhausted bool) bool {
	cnt := map[T]int{}
	for _, x := range snap {
		cnt[x]++
	}
	for _, x := range got {
		cnt[x]--
		if cnt[x] < 0 {
			return false
		}
	}
	if exhausted && len(got) != len(snap) {
		return false
	}
	return true
}

func (s heapSys) scenarios(path []seqx.Op) *seqx.Viol {
	base := s.build(path)
	n := len(base.model)
	muts := []seqx.Op{{K: hPush, A: 0}, {K: hPush, A: 1}, {K: hPush, A: 2}, {K: hPop}, {K: hGrow, A: 0}, {K: hGrow, A: 1}, {K: hGrow, A: 8}, {K: hShrink, A: 0}, {K: hShrink, A: 1}}
	m2s := append([]seqx.Op{{K: none}}, muts...)
	for j := 0; j <= n; j++ {
		for _, m1 := range muts {
			for _, m2 := range m2s {
				atomic.AddInt64(&cases, 1)
				hi := s.build(path)
				snapCreate := append([]item(nil), hi.model...)
				it := hi.h.Iterate()
				pre, ex, p := iterate(it, j)
				if p != nil || ex || !multisetOK(pre, snapCreate, false) {
					return &seqx.Viol{Sig: "heap/unchanged-iteration", Detail: fmt.Sprintf("iteration of an unchanged heap wrong: %v exhausted=%v panic=%v of %v", pre, ex, p, snapCreate)}
				}
				mustPanic := false
				names := ""
				for _, m := range []seqx.Op{m1, m2} {
					if m.K == none {
						continue
					}
					nm, ar := hi.apply(m)
					names += nm + " "
					if ar {
						mustPanic = true
					}
				}
				snapLate := append([]item(nil), hi.model...)
				post, exhausted, p2 := iterate(it, n+4)
				all := append(append([]item{}, pre...), post...)
				ok := multisetOK(all, snapCreate, exhausted) || (j == 0 && multisetOK(all, snapLate, exhausted))
				desc := fmt.Sprintf("heap %v, %d items consumed, then %s", snapCreate, j, names)
				if !ok {
					return &seqx.Viol{Sig: "heap/silent-wrong/" + names[:3], Detail: fmt.Sprintf("%s: iterator yielded %v (exhausted=%v panic=%v)", desc, all, exhausted, p2 != nil)}
				}
				if j >= 1 && mustPanic && (p2 == nil || len(post) > 0) {
					return &seqx.Viol{Sig: "heap/no-panic-after-add-remove/" + names[:3], Detail: fmt.Sprintf("%s: next call did not panic (yielded %v, exhausted=%v)", desc, post, exhausted)}
				}
			}
		}
	}
	return nil
}

type pqSys struct {
	keys  int
	inits [][]xheap.KP[int, int]
}

type pqInst struct {
	q     xheap.PriorityQueue[int, int]
	model map[int]int
}

func (s pqSys) build(path []seqx.Op) *pqInst {
	pi := &pqInst{model: map[int]int{}}
	var init []xheap.KP[int, int]
	rest := path
	if len(path) > 0 && path[0].K == hInit {
		init = append(init, s.inits[path[0].A]...)
		rest = path[1:]
	}
	pi.q = xheap.NewPriorityQueue[int, int](func(a, b int) bool { return a < b }, init)
	for k := 0; k < s.keys; k++ {
		if pi.q.Contains(k) {
			pi.model[k] = pi.q.Priority(k)
		}
	}
	for _, o := range rest {
		pi.apply(o)
	}
	return pi
}

func (pi *pqInst) apply(o seqx.Op) (name string, addRemove bool) {
	switch o.K {
	case qUpdate:
		_, present := pi.model[int(o.A)]
		pi.q.Update(int(o.A), int(o.B))
		pi.model[int(o.A)] = int(o.B)
		return fmt.Sprintf("Update(k%d,p=%d)", o.A, o.B), !present
	case qRemove:
		_, present := pi.model[int(o.A)]
		pi.q.Remove(int(o.A))
		delete(pi.model, int(o.A))
		return fmt.Sprintf("Remove(k%d)", o.A), present
	case qPop:
		if len(pi.model) == 0 {
			vx.Catch(func() { pi.q.Pop() })
			return "Pop(empty)", false
		}
		k := pi.q.Pop()
		delete(pi.model, k)
		return "Pop", true
	case qGrow:
		pi.q.Grow(int(o.A))
		return fmt.Sprintf("Grow(%d)", o.A), false
	}
	return "", false
}

func (pi *pqInst) keys() []int {
	var ks []int
	for k := range pi.model {
		ks = append(ks, k)
	}
	sort.Ints(ks)
	return ks
}

func (s pqSys) Run(path []seqx.Op) (res seqx.Result) {
	pi := s.build(path)
	arr, _, _ := iterate(pi.q.Iterate(), len(pi.model)+2)
	key := ""
	for _, k := range arr {
		key += fmt.Sprintf("%d:%d,", k, pi.model[k])
	}
	res.Key = key
	for k := 0; k < s.keys; k++ {
		for p := 1; p <= 3; p++ {
			res.Next = append(res.Next, seqx.Op{K: qUpdate, A: int16(k), B: int16(p)})
		}
		res.Next = append(res.Next, seqx.Op{K: qRemove, A: int16(k)})
	}
	res.Next = append(res.Next, seqx.Op{K: qPop})
	return
}

func (s pqSys) scenarios(path []seqx.Op, second bool) *seqx.Viol {
	var muts []seqx.Op
	for k := 0; k < s.keys; k++ {
		for p := 1; p <= 3; p++ {
			muts = append(muts, seqx.Op{K: qUpdate, A: int16(k), B: int16(p)})
		}
		muts = append(muts, seqx.Op{K: qRemove, A: int16(k)})
	}
	muts = append(muts, seqx.Op{K: qPop}, seqx.Op{K: qGrow, A: 0}, seqx.Op{K: qGrow, A: 8})
	m2s := []seqx.Op{{K: none}}
	if second {
		m2s = append(m2s, muts...)
	}
	n := len(s.build(path).model)
	for j := 0; j <= n; j++ {
		for _, m1 := range muts {
			for _, m2 := range m2s {
				atomic.AddInt64(&cases, 1)
				pi := s.build(path)
				snapCreate := pi.keys()
				prios := fmt.Sprint(pi.model)
				it := pi.q.Iterate()
				pre, ex, p := iterate(it, j)
				if p != nil || ex || !multisetOK(pre, snapCreate, false) {
					return &seqx.Viol{Sig: "pq/unchanged-iteration", Detail: fmt.Sprintf("iteration of an unchanged queue wrong: %v exhausted=%v panic=%v of %v", pre, ex, p, snapCreate)}
				}
				mustPanic := false
				names := ""
				for _, m := range []seqx.Op{m1, m2} {
					if m.K == none {
						continue
					}
					nm, ar := pi.apply(m)
					names += nm + " "
					if ar {
						mustPanic = true
					}
				}
				snapLate := pi.keys()
				post, exhausted, p2 := iterate(it, n+4)
				all := append(append([]int{}, pre...), post...)
				ok := multisetOK(all, snapCreate, exhausted) || (j == 0 && multisetOK(all, snapLate, exhausted))
				desc := fmt.Sprintf("queue %s, %d keys consumed, then %s", prios, j, names)
				sigOp := "Update"
				switch m1.K {
				case qRemove:
					sigOp = "Remove"
				case qPop:
					sigOp = "Pop"
				case qGrow:
					sigOp = "Grow"
				}
				if !ok {
					return &seqx.Viol{Sig: "pq/silent-wrong/" + sigOp, Detail: fmt.Sprintf("%s: iterator yielded keys %v (exhausted=%v panic=%v), snapshot %v", desc, all, exhausted, p2 != nil, snapCreate)}
				}
				if j >= 1 && mustPanic && (p2 == nil || len(post) > 0) {
					return &seqx.Viol{Sig: "pq/no-panic-after-add-remove/" + sigOp, Detail: fmt.Sprintf("%s: next call did not panic (yielded %v, exhausted=%v)", desc, post, exhausted)}
				}
			}
		}
	}
	return nil
}

func allLists(symbols, maxLen int) [][]int {
	out := [][]int{{}}
	prev := [][]int{{}}
	for l := 1; l <= maxLen; l++ {
		var cur [][]int
		for _, p := range prev {
			for s := 0; s < symbols; s++ {
				cur = append(cur, append(append([]int(nil), p...), s))
			}
		}
		out = append(out, cur...)
		prev = cur
	}
	return out
}

func main() {
	run := vx.Start("C15")
	dqCap, dqLen, heapMax, heapInit, pqKeys := 20, 5, 5, 4, 4
	if !run.Quick() {
		dqCap, dqLen, heapMax, heapInit, pqKeys = 66, 7, 7, 5, 6
	}
	hs := heapSys{maxSize: heapMax, inits: allLists(3, 6)}
	var pInits [][]xheap.KP[int, int]
	for _, l := range allLists(6, 4) {
		var x []xheap.KP[int, int]
		for _, s := range l {
			x = append(x, xheap.KP[int, int]{K: s / 2, P: 1 + s%2})
		}
		pInits = append(pInits, x)
	}
	ps := pqSys{keys: pqKeys, inits: pInits}
	if run.Replay != "" {
		var rp struct {
			Kind string    `json:"kind"`
			Ops  []seqx.Op `json:"ops"`
		}
		run.LoadReplay(&rp)
		var v *seqx.Viol
		switch rp.Kind {
		case "deque":
			v = dequeScenarios(rp.Ops, 99, true)
		case "heap":
			v = hs.scenarios(rp.Ops)
		default:
			ps.keys = 5
			v = ps.scenarios(rp.Ops, true)
		}
		if v != nil {
			run.Violate(vx.Violation{Signature: v.Sig, Detail: v.Detail, Replay: rp})
		}
		run.Finish()
	}
	report := func(kind string, st seqx.Stats) {
		run.AddCounts(st.States, st.Transitions, 0)
		if st.Capped != "" {
			run.Capped(kind + ": " + st.Capped)
		}
		if len(st.Viols) > 0 {
			v := st.Viols[0]
			run.Violate(vx.Violation{Signature: v.Viol.Sig, Detail: v.Viol.Detail, Replay: map[string]any{"kind": kind, "ops": v.Path}})
		}
	}
	// deque
	before := atomic.LoadInt64(&cases)
	st := seqx.Explore(dequeSys{maxCap: dqCap}, seqx.Config{Deadline: run.Deadline, OnNewState: func(p []seqx.Op) *seqx.Viol { return dequeScenarios(p, dqLen, true) }})
	report("deque", st)
	dqCases := atomic.LoadInt64(&cases) - before
	run.Sample(map[string]any{"container": "deque", "scenario": "state reached by " + fmt.Sprint(dqReplayNames(st.SamplePaths)) + "; iterator consumes j items; mutation m1 [, m2]; continue to exhaustion or panic"})
	// heap
	before = atomic.LoadInt64(&cases)
	var seeds [][]seqx.Op
	for i, l := range hs.inits {
		if len(l) <= heapInit {
			seeds = append(seeds, []seqx.Op{{K: hInit, A: int16(i)}})
		}
	}
	st = seqx.ExploreFrom(hs, seeds, seqx.Config{Deadline: run.Deadline, OnNewState: func(p []seqx.Op) *seqx.Viol { return hs.scenarios(p) }})
	report("heap", st)
	heapCases := atomic.LoadInt64(&cases) - before
	// priority queue
	before = atomic.LoadInt64(&cases)
	seeds = nil
	for i, l := range ps.inits {
		if len(l) <= 3 {
			seeds = append(seeds, []seqx.Op{{K: hInit, A: int16(i)}})
		}
	}
	st = seqx.ExploreFrom(ps, seeds, seqx.Config{Deadline: run.Deadline, OnNewState: func(p []seqx.Op) *seqx.Viol { return ps.scenarios(p, true) }})
	report("pq", st)
	pqCases := atomic.LoadInt64(&cases) - before
	run.AddCounts(0, 0, atomic.LoadInt64(&cases))
	run.Set("scenarios", map[string]any{"deque": dqCases, "heap": heapCases, "priority_queue": pqCases})
	run.Set("bounds", map[string]any{"deque_capacity": dqCap, "deque_len": dqLen, "heap_size": heapMax, "queue_keys": pqKeys, "mutations_per_scenario": 2})
	run.Sample(map[string]any{"container": "queue", "scenario": "queue {k0:1,k1:2,k2:2}; iterator consumes 1 key; Update(k2,p=1) reorders the array; continue: must panic or yield exactly the remaining keys"})
	run.Set("rule", "every reachable container state (bounded) x iterator position 0..len x mutation x (no or any second mutation); transitions counts BFS steps that build the states, traces_validated counts iterator scenarios executed on the real containers")
	run.Assume("a value-only overwrite (Deque.Set, PriorityQueue.Update of a present key) is not an element change: the iterator may show old or new value, or panic")
	run.Assume("the snapshot may be taken at Iterate() or at the first Next() (the heap iterator binds lazily)")
	run.Finish()
}

func eqInts(a, b []int) bool {
	if len(a) != len(b) {
		return false
	}
	for i := range a {
		if a[i] != b[i] {
			return false
		}
	}
	return true
}

func dqReplayNames(paths [][]seqx.Op) []string {
	if len(paths) == 0 {
		return nil
	}
	d := dq.New()
	var out []string
	for _, o := range paths[len(paths)-1] {
		r, _ := d.Apply(o)
		out = append(out, r)
	}
	return out
}
