// Package sx provides the instrumented, scripted source stream used by the stream scenarios
// (C08, C09, C11, C12, C14). Plain Go: compiled natively or transformed onto the mc runtime.
package sx

import (
	"context"
	"errors"
	"fmt"
	"time"

	"github.com/bradenaw/juniper/stream"

	"verif/mc/hx"
)

// Step is one scripted answer of a source.
type Step struct {
	Val int
	// Err != nil: this call fails with Err; the next call continues with the next step (a
	// transient failure). A permanent failure is a script that ends with the same error repeated.
	Err error
	// Block: wait until the context ends and return its error (a source with nothing to deliver).
	Block bool
	// Delay: (virtual) time the source takes before answering this call.
	Delay time.Duration
}

// Src is a scripted stream that logs how it is used.
type Src struct {
	Name  string
	Steps []Step
	// Sticky error after the script: nil = stream.End.
	Final error
	// Yield: a scheduling point inside Next (source latency).
	Yield bool

	pos    int
	Nexts  int
	Closes int
	inNext int
	Handed int // items handed out so far
	// (virtual) time at which each item was handed out, and at which the end / an error was
	// first reported (-1 = not yet)
	HandedAt []time.Duration
	EndedAt  time.Duration
	// how many scripted errors (steps or Final) were actually returned to the caller
	ErrsReturned int
	// how often the sticky Final error was returned
	FinalReturned int
	Faults        []string
	OnHand        func(v int)
	closing       bool
}

// Vals builds a source that yields vals and then End.
func Vals(name string, vals ...int) *Src {
	s := &Src{Name: name}
	for _, v := range vals {
		s.Steps = append(s.Steps, Step{Val: v})
	}
	return s
}

func (s *Src) fault(format string, a ...any) {
	s.Faults = append(s.Faults, s.Name+": "+fmt.Sprintf(format, a...))
}

func (s *Src) Next(ctx context.Context) (int, error) {
	hx.Atomically(func() {
		if s.Nexts == 0 && s.EndedAt == 0 {
			s.EndedAt = -1
		}
		if s.Closes > 0 {
			s.fault("Next called after Close")
		}
		if s.inNext > 0 {
			s.fault("two Next calls running concurrently")
		}
		s.inNext++
		s.Nexts++
	})
	defer hx.Atomically(func() { s.inNext-- })
	if s.Yield {
		hx.Yield()
	}
	if err := ctx.Err(); err != nil {
		return 0, err
	}
	var st Step
	done := false
	hx.Atomically(func() {
		if s.pos >= len(s.Steps) {
			done = true
			return
		}
		st = s.Steps[s.pos]
		if !st.Block {
			s.pos++
		}
	})
	if done {
		hx.Atomically(func() {
			if s.EndedAt < 0 {
				s.EndedAt = hx.Now()
			}
		})
		if s.Final != nil {
			hx.Atomically(func() { s.ErrsReturned++; s.FinalReturned++ })
			return 0, s.Final
		}
		return 0, stream.End
	}
	if st.Delay > 0 {
		hx.Sleep(st.Delay)
		if err := ctx.Err(); err != nil {
			// gave up while waiting: the step is not consumed
			hx.Atomically(func() { s.pos-- })
			return 0, err
		}
	}
	if st.Block {
		<-ctx.Done()
		return 0, ctx.Err()
	}
	if st.Err != nil {
		hx.Atomically(func() {
			if s.EndedAt < 0 {
				s.EndedAt = hx.Now()
			}
			s.ErrsReturned++
		})
		return 0, st.Err
	}
	hx.Atomically(func() {
		s.Handed++
		s.HandedAt = append(s.HandedAt, hx.Now())
		if s.OnHand != nil {
			s.OnHand(st.Val)
		}
	})
	return st.Val, nil
}

func (s *Src) Close() {
	hx.Atomically(func() {
		if s.inNext > 0 {
			s.fault("Close called while Next is running")
		}
		s.Closes++
		if s.Closes > 1 {
			s.fault("closed %d times", s.Closes)
		}
	})
}

// CheckClosedOnce reports misuse of the source; mustBeClosed: by now it has to have been closed.
func (s *Src) Check(mustBeClosed bool) (sig, detail string) {
	if len(s.Faults) > 0 {
		switch {
		case containsAny(s.Faults, "after Close"):
			return "source/next-after-close", s.Faults[0]
		case containsAny(s.Faults, "concurrently"):
			return "source/concurrent-next", s.Faults[0]
		case containsAny(s.Faults, "while Next"):
			return "source/close-during-next", s.Faults[0]
		default:
			return "source/closed-twice", s.Faults[0]
		}
	}
	if mustBeClosed && s.Closes == 0 {
		return "source/never-closed", s.Name + " was never closed"
	}
	return "", ""
}

func containsAny(list []string, sub string) bool {
	for _, l := range list {
		for i := 0; i+len(sub) <= len(l); i++ {
			if l[i:i+len(sub)] == sub {
				return true
			}
		}
	}
	return false
}

var ErrSrc = errors.New("source-error")
var ErrSrc2 = errors.New("source-error-2")
var ErrFn = errors.New("callback-error")

// SrcOf is a scripted stream of arbitrary items (used as the outer stream of Flatten). It logs use
// like Src but has no faults of its own.
type SrcOf[T any] struct {
	Name   string
	Items  []T
	pos    int
	Closes int
}

func (s *SrcOf[T]) Next(ctx context.Context) (T, error) {
	var zero T
	if err := ctx.Err(); err != nil {
		return zero, err
	}
	if s.pos >= len(s.Items) {
		return zero, stream.End
	}
	v := s.Items[s.pos]
	s.pos++
	return v, nil
}

func (s *SrcOf[T]) Close() { s.Closes++ }

// HandedOut is the number of items the stream has yielded so far.
func (s *SrcOf[T]) HandedOut() int { return s.pos }
