//go:build verif

// C07: iterator / stream / xslices combinators compute their documented sequence function, agree
// with one another, are lazy, and keep reporting the end.
//
// Engine E1, input enumeration: every input sequence over a small alphabet up to a length bound,
// every parameter value, every predicate truth table / equivalence relation on the alphabet, every
// splitting into sub-sequences, and every ordered pair of unary combinator instances, run on the
// real code over an instrumented source that counts Next calls.
//
// Laziness oracle: after the j-th output the source must not have been asked for more items than any
// implementation needs that treats the callbacks as black boxes (per-combinator bound; a pipeline's
// bound is the composition of its stages' bounds).
package main

import (
	"context"
	"fmt"
	"math"
	"runtime/debug"
	"strings"
	"sync/atomic"

	"github.com/bradenaw/juniper/iterator"
	"github.com/bradenaw/juniper/stream"
	"github.com/bradenaw/juniper/xslices"

	"verif/internal/vx"
)

// ---- instrumented sources ------------------------------------------------------------------------

type cIter struct {
	items []int
	pos   int
	pulls int
	ended bool
}

func (c *cIter) Next() (int, bool) {
	if c.pos >= len(c.items) {
		// asking an exhausted source again requests no item: only the first end-report counts
		if !c.ended {
			c.ended = true
			c.pulls++
		}
		return 0, false
	}
	c.pulls++
	v := c.items[c.pos]
	c.pos++
	return v, true
}

type cStream struct{ it *cIter }

func (c cStream) Next(ctx context.Context) (int, error) {
	v, ok := c.it.Next()
	if !ok {
		return 0, stream.End
	}
	return v, nil
}
func (c cStream) Close() {}

// ---- unary int->int combinators --------------------------------------------------------------------

type intComb struct {
	name string
	ref  func([]int) []int
	it   func(iterator.Iterator[int]) iterator.Iterator[int]
	st   func(stream.Stream[int]) stream.Stream[int]
	sl   func([]int) []int // xslices counterpart, if any
	// need(in, j): number of source pulls (a pull that reports the source's end counts) that any
	// implementation treating the callbacks as black boxes needs before it can hand out output #j
	// (j = 1..len(out)) or report the end (j = len(out)+1).
	need func(in []int, j int) int
}

// index+1 of the j-th element of out within in, where out is the subsequence of in selected by keep
func posOfKept(in []int, keep func(i int) bool, j int) int {
	n := 0
	for i := range in {
		if keep(i) {
			n++
			if n == j {
				return i + 1
			}
		}
	}
	return len(in) + 1
}

func predTable(t int) func(int) bool { return func(x int) bool { return t>>(uint(x)&3)&1 == 1 } }

// equivalence relations on {0,1,2}: same(a,b) iff class[a]==class[b]
var equivs = [][3]int{{0, 1, 2}, {0, 0, 2}, {0, 1, 0}, {0, 1, 1}, {0, 0, 0}}

func intCombs(maxN int) []intComb {
	var out []intComb
	for n := -1; n <= maxN; n++ {
		n := n
		out = append(out, intComb{
			name: fmt.Sprintf("First(%d)", n),
			ref: func(s []int) []int {
				if n <= 0 {
					return nil
				}
				if n > len(s) {
					return s
				}
				return s[:n]
			},
			it: func(i iterator.Iterator[int]) iterator.Iterator[int] { return iterator.First(i, n) },
			st: func(s stream.Stream[int]) stream.Stream[int] { return stream.First(s, n) },
			need: func(in []int, j int) int {
				outs := n
				if outs < 0 {
					outs = 0
				}
				if outs > len(in) {
					outs = len(in)
				}
				if j <= outs {
					return j
				}
				if n <= len(in) {
					return outs // the count is used up: no pull needed to know the end
				}
				return len(in) + 1
			},
		})
	}
	for t := 0; t < 8; t++ {
		p := predTable(t)
		t := t
		out = append(out, intComb{
			name: fmt.Sprintf("While(table %03b)", t),
			ref: func(s []int) []int {
				var r []int
				for _, x := range s {
					if !p(x) {
						break
					}
					r = append(r, x)
				}
				return r
			},
			it: func(i iterator.Iterator[int]) iterator.Iterator[int] { return iterator.While(i, p) },
			st: func(s stream.Stream[int]) stream.Stream[int] {
				return stream.While(s, func(ctx context.Context, x int) (bool, error) { return p(x), nil })
			},
			need: func(in []int, j int) int {
				k := 0
				for k < len(in) && p(in[k]) {
					k++
				}
				if j <= k {
					return j
				}
				return k + 1 // the first failing item, or the source's end
			},
		}, intComb{
			name: fmt.Sprintf("Filter(table %03b)", t),
			ref: func(s []int) []int {
				var r []int
				for _, x := range s {
					if p(x) {
						r = append(r, x)
					}
				}
				return r
			},
			it: func(i iterator.Iterator[int]) iterator.Iterator[int] { return iterator.Filter(i, p) },
			st: func(s stream.Stream[int]) stream.Stream[int] {
				return stream.Filter(s, func(ctx context.Context, x int) (bool, error) { return p(x), nil })
			},
			sl:   func(s []int) []int { return xslices.Filter(s, p) },
			need: func(in []int, j int) int { return posOfKept(in, func(i int) bool { return p(in[i]) }, j) },
		})
	}
	out = append(out, intComb{
		name: "Map(x+10)",
		ref: func(s []int) []int {
			var r []int
			for _, x := range s {
				r = append(r, x+10)
			}
			return r
		},
		it: func(i iterator.Iterator[int]) iterator.Iterator[int] {
			return iterator.Map(i, func(x int) int { return x + 10 })
		},
		st: func(s stream.Stream[int]) stream.Stream[int] {
			return stream.Map(s, func(ctx context.Context, x int) (int, error) { return x + 10, nil })
		},
		sl:   func(s []int) []int { return xslices.Map(s, func(x int) int { return x + 10 }) },
		need: func(in []int, j int) int { return j },
	}, intComb{
		name: "Compact",
		ref:  func(s []int) []int { return refCompact(s, func(a, b int) bool { return a == b }) },
		it:   func(i iterator.Iterator[int]) iterator.Iterator[int] { return iterator.Compact(i) },
		st:   func(s stream.Stream[int]) stream.Stream[int] { return stream.Compact(s) },
		sl:   func(s []int) []int { return xslices.Compact(s) },
		need: func(in []int, j int) int {
			return posOfKept(in, func(i int) bool { return i == 0 || in[i] != in[i-1] }, j)
		},
	})
	for ei, e := range equivs {
		e := e
		eq := func(a, b int) bool { return e[a%3] == e[b%3] }
		out = append(out, intComb{
			name: fmt.Sprintf("CompactFunc(classes %v)", e),
			ref:  func(s []int) []int { return refCompact(s, eq) },
			it:   func(i iterator.Iterator[int]) iterator.Iterator[int] { return iterator.CompactFunc(i, eq) },
			st:   func(s stream.Stream[int]) stream.Stream[int] { return stream.CompactFunc(s, eq) },
			sl:   func(s []int) []int { return xslices.CompactFunc(s, eq) },
			need: func(in []int, j int) int {
				// kept: first item, and every item not equivalent to the previously KEPT one
				kept := make([]bool, len(in))
				last := -1
				for i := range in {
					if last < 0 || !eq(in[last], in[i]) {
						kept[i] = true
						last = i
					}
				}
				return posOfKept(in, func(i int) bool { return kept[i] }, j)
			},
		})
		_ = ei
	}
	for k := 1; k <= 3; k++ {
		k := k
		out = append(out, intComb{
			name: fmt.Sprintf("FlattenSlices.Chunk(%d)", k),
			ref:  func(s []int) []int { return s },
			it: func(i iterator.Iterator[int]) iterator.Iterator[int] {
				return iterator.Flatten(iterator.Map(iterator.Chunk(i, k), func(c []int) iterator.Iterator[int] { return iterator.Slice(c) }))
			},
			st: func(s stream.Stream[int]) stream.Stream[int] { return stream.FlattenSlices(stream.Chunk(s, k)) },
			need: func(in []int, j int) int {
				if j > len(in) {
					return len(in) + 1
				}
				c := (j + k - 1) / k * k // the chunk holding item j has to be complete ...
				if c > len(in) {
					return len(in) + 1 // ... or the source has to have ended
				}
				return c
			},
		})
	}
	out = append(out, intComb{
		name: "Join(empty,x,empty)",
		ref:  func(s []int) []int { return s },
		it: func(i iterator.Iterator[int]) iterator.Iterator[int] {
			return iterator.Join(iterator.Empty[int](), i, iterator.Empty[int]())
		},
		st: func(s stream.Stream[int]) stream.Stream[int] {
			return stream.Join(stream.Empty[int](), s, stream.Empty[int]())
		},
		need: func(in []int, j int) int { return j },
	}, intComb{
		name: "FromIterator/WithPeek",
		ref:  func(s []int) []int { return s },
		it:   func(i iterator.Iterator[int]) iterator.Iterator[int] { return iterator.WithPeek(i) },
		st:   func(s stream.Stream[int]) stream.Stream[int] { return stream.WithPeek(s) },
		need: func(in []int, j int) int { return j },
	})
	return out
}

func refCompact(s []int, eq func(a, b int) bool) []int {
	var r []int
	for i, x := range s {
		if i == 0 || !eq(r[len(r)-1], x) {
			r = append(r, x)
		}
	}
	return r
}

type viol struct{ sig, detail string }

var cases int64

// checkInt runs one int->int combinator (or pipeline) in its iterator and stream forms.
func checkInt(name string, ref func([]int) []int, it func(iterator.Iterator[int]) iterator.Iterator[int], st func(stream.Stream[int]) stream.Stream[int], sl func([]int) []int, needFn func([]int, int) int, in []int) *viol {
	atomic.AddInt64(&cases, 1)
	want := ref(in)
	nd := make([]int, len(want)+2)
	for j := 1; j <= len(want)+1; j++ {
		nd[j] = needFn(in, j)
		if nd[j] > len(in)+1 {
			nd[j] = len(in) + 1
		}
	}
	for _, form := range []string{"iterator", "stream"} {
		src := &cIter{items: in}
		var next func() (int, bool)
		var p any
		p = vx.Catch(func() {
			if form == "iterator" {
				x := it(src)
				next = x.Next
			} else {
				x := st(cStream{src})
				next = func() (int, bool) {
					v, err := x.Next(context.Background())
					if err != nil && err != stream.End {
						panic(err)
					}
					return v, err == nil
				}
			}
		})
		if p != nil {
			return &viol{"panic/" + base(name), fmt.Sprintf("%s.%s on %v panicked at construction: %v", form, name, in, p)}
		}
		if src.pulls != 0 {
			return &viol{"eager-at-construction/" + base(name), fmt.Sprintf("%s.%s on %v pulled %d source items before the first Next", form, name, in, src.pulls)}
		}
		var got []int
		var v *viol
		p = vx.Catch(func() {
			for j := 1; j <= len(want)+3; j++ {
				x, ok := next()
				if !ok {
					if len(got) < len(want) {
						v = &viol{"wrong-output/" + base(name), fmt.Sprintf("%s.%s on %v yielded %v then ended, want %v", form, name, in, got, want)}
						return
					}
					if src.pulls > nd[len(want)+1] && len(got) == len(want) && j == len(want)+1 {
						v = &viol{"not-lazy/" + base(name), fmt.Sprintf("%s.%s on %v had pulled %d source items when it reported the end; %d suffice", form, name, in, src.pulls, nd[len(want)+1])}
						return
					}
					continue
				}
				if len(got) >= len(want) {
					v = &viol{"end-not-sticky-or-extra-output/" + base(name), fmt.Sprintf("%s.%s on %v yielded %v and then %d; want %v then the end, every time", form, name, in, got, x, want)}
					return
				}
				got = append(got, x)
				if x != want[len(got)-1] {
					v = &viol{"wrong-output/" + base(name), fmt.Sprintf("%s.%s on %v yielded %v, want %v", form, name, in, got, want)}
					return
				}
				if src.pulls > nd[len(got)] {
					v = &viol{"not-lazy/" + base(name), fmt.Sprintf("%s.%s on %v had pulled %d source items after output #%d; %d suffice to determine it", form, name, in, src.pulls, len(got), nd[len(got)])}
					return
				}
			}
		})
		if p != nil {
			return &viol{"panic/" + base(name), fmt.Sprintf("%s.%s on %v panicked: %v", form, name, in, p)}
		}
		if v != nil {
			return v
		}
	}
	if sl != nil {
		var got []int
		if p := vx.Catch(func() { got = sl(append([]int{}, in...)) }); p != nil {
			return &viol{"panic/" + base(name), fmt.Sprintf("xslices.%s on %v panicked: %v", name, in, p)}
		}
		if !eqInts(got, want) {
			return &viol{"xslices-disagrees/" + base(name), fmt.Sprintf("xslices.%s on %v returned %v, iterator/stream/reference give %v", name, in, got, want)}
		}
	}
	return nil
}

func base(name string) string {
	for i, c := range name {
		if c == '(' {
			return name[:i]
		}
	}
	return name
}

func eqInts(a, b []int) bool {
	if len(a) != len(b) {
		return false
	}
	for i := range a {
		if a[i] != b[i] {
			return false
		}
	}
	return true
}

// ---- combinators with other shapes -----------------------------------------------------------------

func refChunk(s []int, k int) [][]int {
	var out [][]int
	for i := 0; i < len(s); i += k {
		e := i + k
		if e > len(s) {
			e = len(s)
		}
		out = append(out, s[i:e])
	}
	return out
}

func refRuns(s []int, same func(a, b int) bool) [][]int {
	var out [][]int
	for i, x := range s {
		if i == 0 || !same(out[len(out)-1][0], x) {
			out = append(out, []int{x})
		} else {
			out[len(out)-1] = append(out[len(out)-1], x)
		}
	}
	return out
}

func checkChunk(in []int, k int) *viol {
	atomic.AddInt64(&cases, 1)
	want := refChunk(in, k)
	check := func(form string, next func() ([]int, bool), src *cIter) *viol {
		if src.pulls != 0 {
			return &viol{"eager-at-construction/Chunk", fmt.Sprintf("%s.Chunk(%d) pulled before the first Next", form, k)}
		}
		var kept [][]int
		for j := 0; j <= len(want)+2; j++ {
			c, ok := next()
			// a chunk that has been handed out stays what it was: a consumer may keep it (Collect does)
			for i, kc := range kept {
				if !eqInts(kc, want[i]) {
					return &viol{"chunk-overwritten/Chunk", fmt.Sprintf("%s.Chunk(%d) on %v: chunk #%d was %v when handed out and reads %v after %d further Next calls", form, k, in, i, want[i], kc, j-i)}
				}
			}
			if j < len(want) {
				if !ok || !eqInts(c, want[j]) {
					return &viol{"wrong-output/Chunk", fmt.Sprintf("%s.Chunk(%d) on %v: chunk #%d = %v (ok=%v), want %v", form, k, in, j, c, ok, want[j])}
				}
				kept = append(kept, c)
				lim := (j + 1) * k
				if lim > len(in) {
					lim = len(in) + 1
				}
				if src.pulls > lim {
					return &viol{"not-lazy/Chunk", fmt.Sprintf("%s.Chunk(%d) on %v had pulled %d source items after chunk #%d; %d suffice", form, k, in, src.pulls, j+1, lim)}
				}
			} else if ok {
				return &viol{"end-not-sticky-or-extra-output/Chunk", fmt.Sprintf("%s.Chunk(%d) on %v yielded %v after the end", form, k, in, c)}
			}
		}
		return nil
	}
	s1 := &cIter{items: in}
	i1 := iterator.Chunk[int](s1, k)
	if v := check("iterator", i1.Next, s1); v != nil {
		return v
	}
	s2 := &cIter{items: in}
	st := stream.Chunk[int](cStream{s2}, k)
	if v := check("stream", func() ([]int, bool) {
		c, err := st.Next(context.Background())
		return c, err == nil
	}, s2); v != nil {
		return v
	}
	got := xslices.Chunk(in, k)
	if len(got) != len(want) {
		return &viol{"xslices-disagrees/Chunk", fmt.Sprintf("xslices.Chunk(%v,%d) = %v, want %v", in, k, got, want)}
	}
	for i := range got {
		if !eqInts(got[i], want[i]) {
			return &viol{"xslices-disagrees/Chunk", fmt.Sprintf("xslices.Chunk(%v,%d) = %v, want %v", in, k, got, want)}
		}
	}
	return nil
}

func checkRuns(in []int, e [3]int) *viol {
	atomic.AddInt64(&cases, 1)
	same := func(a, b int) bool { return e[a%3] == e[b%3] }
	want := refRuns(in, same)
	// position (1-based count of source items) of the first item of each run, for the laziness bound
	starts := []int{}
	n := 0
	for _, r := range want {
		starts = append(starts, n+1)
		n += len(r)
	}
	type puller struct {
		outer func() (func() (int, bool), bool)
	}
	run := func(form string, p puller, src *cIter) *viol {
		if src.pulls != 0 {
			return &viol{"eager-at-construction/Runs", form + ".Runs pulled before the first Next"}
		}
		var stale []func() (int, bool)
		for j := 0; j <= len(want)+1; j++ {
			// a run that has ended stays ended, also after the outer sequence has moved on: its
			// handle must not take items that belong to later runs
			for si, old := range stale {
				if x, ok := old(); ok {
					return &viol{"end-not-sticky-or-extra-output/Runs", fmt.Sprintf("%s.Runs on %v (classes %v): the finished run #%d yielded %d again after later runs had started", form, in, e, si+1, x)}
				}
			}
			inner, ok := p.outer()
			if ok {
				stale = append(stale, inner)
			}
			if j >= len(want) {
				if ok {
					return &viol{"end-not-sticky-or-extra-output/Runs", fmt.Sprintf("%s.Runs on %v (classes %v) yielded a run after the end", form, in, e)}
				}
				continue
			}
			if !ok {
				return &viol{"wrong-output/Runs", fmt.Sprintf("%s.Runs on %v (classes %v) ended after %d runs, want %v", form, in, e, j, want)}
			}
			if src.pulls > starts[j] {
				return &viol{"not-lazy/Runs", fmt.Sprintf("%s.Runs on %v had pulled %d source items when run #%d started at item %d", form, in, src.pulls, j+1, starts[j])}
			}
			var got []int
			for k := 0; k <= len(want[j])+1; k++ {
				x, ok := inner()
				if !ok {
					break
				}
				got = append(got, x)
				// the k-th item of a run is the (start+k-1)-th source item: nothing beyond it is needed yet
				lim := starts[j] + len(got) - 1
				if lim > len(in)+1 {
					lim = len(in) + 1
				}
				if src.pulls > lim {
					return &viol{"not-lazy/Runs", fmt.Sprintf("%s.Runs on %v had pulled %d source items after %d items of run #%d", form, in, src.pulls, len(got), j+1)}
				}
			}
			if !eqInts(got, want[j]) {
				return &viol{"wrong-output/Runs", fmt.Sprintf("%s.Runs on %v (classes %v): run #%d = %v, want %v", form, in, e, j+1, got, want[j])}
			}
			if x, ok := inner(); ok {
				return &viol{"end-not-sticky-or-extra-output/Runs", fmt.Sprintf("%s.Runs: inner run yielded %d after its end", form, x)}
			}
		}
		return nil
	}
	s1 := &cIter{items: in}
	i1 := iterator.Runs[int](s1, same)
	if v := run("iterator", puller{func() (func() (int, bool), bool) {
		r, ok := i1.Next()
		if !ok {
			return nil, false
		}
		return r.Next, true
	}}, s1); v != nil {
		return v
	}
	s2 := &cIter{items: in}
	st := stream.Runs[int](cStream{s2}, same)
	if v := run("stream", puller{func() (func() (int, bool), bool) {
		r, err := st.Next(context.Background())
		if err != nil {
			return nil, false
		}
		return func() (int, bool) { x, err := r.Next(context.Background()); return x, err == nil }, true
	}}, s2); v != nil {
		return v
	}
	got := xslices.Runs(in, same)
	if len(got) != len(want) {
		return &viol{"xslices-disagrees/Runs", fmt.Sprintf("xslices.Runs(%v, classes %v) = %v, iterator/stream/reference give %v", in, e, got, want)}
	}
	for i := range got {
		if !eqInts(got[i], want[i]) {
			return &viol{"xslices-disagrees/Runs", fmt.Sprintf("xslices.Runs(%v, classes %v) = %v, iterator/stream/reference give %v", in, e, got, want)}
		}
	}
	return nil
}

// splittings of in into k consecutive (possibly empty) parts
func splits(in []int, k int) [][][]int {
	if k == 1 {
		return [][][]int{{in}}
	}
	var out [][][]int
	for i := 0; i <= len(in); i++ {
		for _, rest := range splits(in[i:], k-1) {
			out = append(out, append([][]int{in[:i]}, rest...))
		}
	}
	return out
}

func checkJoinFlatten(parts [][]int) *viol {
	atomic.AddInt64(&cases, 1)
	var want []int
	for _, p := range parts {
		want = append(want, p...)
	}
	// total pulls needed after j outputs: j plus one end-pull for every part finished before
	limit := func(j int) int {
		if j == 0 {
			return 0
		}
		n, ends := 0, 0
		for _, p := range parts {
			if n+len(p) >= j {
				break
			}
			n += len(p)
			ends++
		}
		return j + ends
	}
	total := func(srcs []*cIter) int {
		t := 0
		for _, s := range srcs {
			t += s.pulls
		}
		return t
	}
	mk := func() []*cIter {
		var s []*cIter
		for _, p := range parts {
			s = append(s, &cIter{items: p})
		}
		return s
	}
	drive := func(what string, next func() (int, bool), srcs []*cIter) *viol {
		if total(srcs) != 0 {
			return &viol{"eager-at-construction/" + what, what + " pulled before the first Next"}
		}
		var got []int
		for j := 1; j <= len(want)+2; j++ {
			x, ok := next()
			if !ok {
				if len(got) != len(want) {
					return &viol{"wrong-output/" + what, fmt.Sprintf("%s over %v yielded %v, want %v", what, parts, got, want)}
				}
				continue
			}
			if len(got) >= len(want) {
				return &viol{"end-not-sticky-or-extra-output/" + what, fmt.Sprintf("%s over %v yielded %d after the end", what, parts, x)}
			}
			got = append(got, x)
			if x != want[len(got)-1] {
				return &viol{"wrong-output/" + what, fmt.Sprintf("%s over %v yielded %v, want %v", what, parts, got, want)}
			}
			if total(srcs) > limit(len(got)) {
				return &viol{"not-lazy/" + what, fmt.Sprintf("%s over %v had pulled %d items in total after output #%d; %d suffice", what, parts, total(srcs), len(got), limit(len(got)))}
			}
		}
		return nil
	}
	{
		srcs := mk()
		var its []iterator.Iterator[int]
		for _, s := range srcs {
			its = append(its, s)
		}
		j := iterator.Join(its...)
		if v := drive("iterator.Join", j.Next, srcs); v != nil {
			return v
		}
	}
	{
		srcs := mk()
		var sts []stream.Stream[int]
		for _, s := range srcs {
			sts = append(sts, cStream{s})
		}
		j := stream.Join(sts...)
		if v := drive("stream.Join", func() (int, bool) { x, err := j.Next(context.Background()); return x, err == nil }, srcs); v != nil {
			return v
		}
	}
	{
		srcs := mk()
		var its []iterator.Iterator[int]
		for _, s := range srcs {
			its = append(its, s)
		}
		f := iterator.Flatten(iterator.Slice(its))
		if v := drive("iterator.Flatten", f.Next, srcs); v != nil {
			return v
		}
	}
	{
		srcs := mk()
		var sts []stream.Stream[int]
		for _, s := range srcs {
			sts = append(sts, cStream{s})
		}
		f := stream.Flatten(stream.FromIterator(iterator.Slice(sts)))
		if v := drive("stream.Flatten", func() (int, bool) { x, err := f.Next(context.Background()); return x, err == nil }, srcs); v != nil {
			return v
		}
	}
	if got := xslices.Join(parts...); !eqInts(got, want) {
		return &viol{"xslices-disagrees/Join", fmt.Sprintf("xslices.Join(%v) = %v", parts, got)}
	}
	{
		srcs := mk()
		f := stream.FlattenSlices(stream.FromIterator(iterator.Slice(parts)))
		if v := drive("stream.FlattenSlices", func() (int, bool) { x, err := f.Next(context.Background()); return x, err == nil }, srcs); v != nil {
			return v
		}
	}
	return nil
}

func checkReducersAndConstructors(in []int) *viol {
	atomic.AddInt64(&cases, 1)
	ctx := context.Background()
	fail := func(sig, format string, a ...any) *viol { return &viol{sig, fmt.Sprintf(format, a...)} }
	var v *viol
	p := vx.Catch(func() {
		// Slice / Collect / FromIterator
		if got := iterator.Collect(iterator.Slice(in)); !eqInts(got, in) {
			v = fail("wrong-output/Collect", "iterator.Collect(Slice(%v)) = %v", in, got)
			return
		}
		{
			// "Collect advances iter to the end"
			c1, c2 := &cIter{items: in}, &cIter{items: in}
			g1 := iterator.Collect[int](c1)
			g2, err := stream.Collect[int](ctx, cStream{c2})
			if !eqInts(g1, in) || !eqInts(g2, in) || err != nil {
				v = fail("wrong-output/Collect", "Collect over %v: iterator %v, stream %v (%v)", in, g1, g2, err)
				return
			}
			if !c1.ended || !c2.ended {
				v = fail("input-not-consumed/Collect", "Collect(%v) is documented to advance its input to the end: iterator form %v, stream form %v", in, c1.ended, c2.ended)
				return
			}
		}
		if got, err := stream.Collect(ctx, stream.FromIterator(iterator.Slice(in))); err != nil || !eqInts(got, in) {
			v = fail("wrong-output/Collect", "stream.Collect(FromIterator(Slice(%v))) = %v, %v", in, got, err)
			return
		}
		// Chan
		ch := make(chan int, len(in))
		ch2 := make(chan int, len(in))
		for _, x := range in {
			ch <- x
			ch2 <- x
		}
		close(ch)
		close(ch2)
		if got := iterator.Collect(iterator.Chan(ch)); !eqInts(got, in) {
			v = fail("wrong-output/Chan", "iterator.Chan over %v yielded %v", in, got)
			return
		}
		if got, err := stream.Collect(ctx, stream.Chan(ch2)); err != nil || !eqInts(got, in) {
			v = fail("wrong-output/Chan", "stream.Chan over %v yielded %v, %v", in, got, err)
			return
		}
		// Empty
		if _, ok := iterator.Empty[int]().Next(); ok {
			v = fail("wrong-output/Empty", "iterator.Empty yielded an item")
			return
		}
		if _, err := stream.Empty[int]().Next(ctx); err != stream.End {
			v = fail("wrong-output/Empty", "stream.Empty returned %v", err)
			return
		}
		// Error: "immediately produces err from Next" (and keeps doing so; a reducer returns it)
		{
			e := fmt.Errorf("constructed error %d", len(in))
			es := stream.Error[int](e)
			for k := 0; k < 3; k++ {
				if x, err := es.Next(ctx); err != e || x != 0 {
					v = fail("wrong-output/Error", "stream.Error(e).Next #%d returned (%d,%v)", k+1, x, err)
					return
				}
			}
			es.Close()
			if got, err := stream.Collect(ctx, stream.Join(stream.FromIterator(iterator.Slice(in)), stream.Error[int](e))); err != e || got != nil && len(got) > len(in) {
				v = fail("wrong-output/Error", "Collect(Join(Slice(%v), Error(e))) = %v, %v", in, got, err)
				return
			}
		}
		// Last
		for n := 0; n <= len(in)+2; n++ {
			want := in
			if n < len(in) {
				want = in[len(in)-n:]
			}
			var g1, g2 []int
			var err error
			l1, l2 := &cIter{items: in}, &cIter{items: in}
			if pp := vx.Catch(func() { g1 = iterator.Last[int](l1, n) }); pp != nil {
				v = fail("Last/n=0-panic", "iterator.Last(%v, %d) panicked: %v", in, n, pp)
				return
			}
			if pp := vx.Catch(func() { g2, err = stream.Last[int](ctx, cStream{l2}, n) }); pp != nil {
				v = fail("Last/n=0-panic", "stream.Last(%v, %d) panicked: %v", in, n, pp)
				return
			}
			if !eqInts(g1, want) || !eqInts(g2, want) || err != nil {
				v = fail("wrong-output/Last", "Last(%v,%d): iterator %v, stream %v (%v), want %v", in, n, g1, g2, err, want)
				return
			}
			// "Last consumes iter": both forms leave their input at its end, for every n
			if !l1.ended || !l2.ended {
				v = fail("input-not-consumed/Last", "Last(%v,%d) is documented to consume its input: iterator form reached the end: %v, stream form: %v", in, n, l1.ended, l2.ended)
				return
			}
		}
		// One (needs at most two items)
		s1 := &cIter{items: in}
		x, ok := iterator.One[int](s1)
		if ok != (len(in) == 1) || (ok && x != in[0]) {
			v = fail("wrong-output/One", "iterator.One(%v) = %d,%v", in, x, ok)
			return
		}
		if s1.pulls > 2 {
			v = fail("not-lazy/One", "iterator.One(%v) pulled %d items; two decide", in, s1.pulls)
			return
		}
		s2 := &cIter{items: in}
		y, err := stream.One[int](ctx, cStream{s2})
		switch {
		case len(in) == 0 && err != stream.ErrEmpty, len(in) == 1 && (err != nil || y != in[0]), len(in) > 1 && err != stream.ErrMoreThanOne:
			v = fail("wrong-output/One", "stream.One(%v) = %d,%v", in, y, err)
			return
		}
		if s2.pulls > 2 {
			v = fail("not-lazy/One", "stream.One(%v) pulled %d items; two decide", in, s2.pulls)
			return
		}
		// Reduce
		want := 0
		for _, x := range in {
			want = want*7 + x + 1
		}
		f := func(acc, x int) int { return acc*7 + x + 1 }
		g1 := iterator.Reduce[int, int](iterator.Slice(in), 0, f)
		g2, err := stream.Reduce[int, int](ctx, cStream{&cIter{items: in}}, 0, func(a, x int) (int, error) { return f(a, x), nil })
		g3 := xslices.Reduce(in, 0, f)
		if g1 != want || g2 != want || g3 != want || err != nil {
			v = fail("wrong-output/Reduce", "Reduce over %v: iterator %d, stream %d (%v), xslices %d, want %d", in, g1, g2, err, g3, want)
			return
		}
		// Counter / Repeat
		for n := -1; n <= 3; n++ {
			var wc, wr []int
			for i := 0; i < n; i++ {
				wc = append(wc, i)
				wr = append(wr, 5)
			}
			c := iterator.Counter(n)
			r := iterator.Repeat(5, n)
			gc, gr := takeAtMost(c, n+8), takeAtMost(r, n+8) // bounded: a constructor that never ends must not hang the check
			if !eqInts(gc, wc) || !eqInts(gr, wr) || (n > 0 && !eqInts(xslices.Repeat(5, n), wr)) {
				v = fail("wrong-output/CounterRepeat", "Counter(%d)=%v Repeat(5,%d)=%v", n, gc, n, gr)
				return
			}
			if _, ok := c.Next(); ok {
				v = fail("end-not-sticky-or-extra-output/Counter", "Counter(%d) yields after its end", n)
				return
			}
			if _, ok := r.Next(); ok {
				v = fail("end-not-sticky-or-extra-output/Repeat", "Repeat(%d) yields after its end", n)
				return
			}
		}
	})
	if p != nil {
		return &viol{"panic/reducers", fmt.Sprintf("on %v: %v", in, p)}
	}
	return v
}

// takeAtMost collects at most limit+1 items.
func takeAtMost(it iterator.Iterator[int], limit int) []int {
	var out []int
	if limit < 0 {
		limit = 0
	}
	for i := 0; i <= limit; i++ {
		x, ok := it.Next()
		if !ok {
			break
		}
		out = append(out, x)
	}
	return out
}

func checkEqual(a, b []int) *viol {
	atomic.AddInt64(&cases, 1)
	want := eqInts(a, b)
	s1, s2 := &cIter{items: a}, &cIter{items: b}
	got := iterator.Equal[int](s1, s2)
	if got != want {
		return &viol{"wrong-output/Equal", fmt.Sprintf("iterator.Equal(%v,%v) = %v", a, b, got)}
	}
	// three iterators, the odd one at every position
	for _, tr := range [][3][]int{{a, b, a}, {a, a, b}, {b, a, a}} {
		if got := iterator.Equal[int](&cIter{items: tr[0]}, &cIter{items: tr[1]}, &cIter{items: tr[2]}); got != want {
			return &viol{"wrong-output/Equal", fmt.Sprintf("iterator.Equal(%v,%v,%v) = %v", tr[0], tr[1], tr[2], got)}
		}
	}
	if !iterator.Equal[int](&cIter{items: a}) || !iterator.Equal[int]() {
		return &viol{"wrong-output/Equal", "iterator.Equal of one or zero iterators is not true"}
	}
	if xslices.Equal(a, b) != want {
		return &viol{"xslices-disagrees/Equal", fmt.Sprintf("xslices.Equal(%v,%v)", a, b)}
	}
	// stops at the first difference
	d := 0
	for d < len(a) && d < len(b) && a[d] == b[d] {
		d++
	}
	if s1.pulls > d+1 || s2.pulls > d+1 {
		return &viol{"not-lazy/Equal", fmt.Sprintf("iterator.Equal(%v,%v) pulled %d/%d items, the first difference is at %d", a, b, s1.pulls, s2.pulls, d)}
	}
	return nil
}

// checkPeekOnPeek: a Peekable that has already looked ahead is an iterator/stream like any other:
// wrapping it again (WithPeek, or any combinator that peeks internally, like Runs) loses nothing.
func checkPeekOnPeek(in []int) *viol {
	atomic.AddInt64(&cases, 1)
	ctx := context.Background()
	for consumed := 0; consumed <= len(in); consumed++ {
		for _, peeked := range []bool{false, true} {
			p1 := iterator.WithPeek[int](&cIter{items: in})
			p2 := stream.WithPeek[int](cStream{&cIter{items: in}})
			for i := 0; i < consumed; i++ {
				p1.Next()
				p2.Next(ctx)
			}
			if peeked {
				p1.Peek()
				p2.Peek(ctx)
			}
			want := in[consumed:]
			g1 := iterator.Collect[int](iterator.WithPeek[int](p1))
			g2, err := stream.Collect[int](ctx, stream.WithPeek[int](p2))
			if !eqInts(g1, want) || !eqInts(g2, want) || err != nil {
				return &viol{"wrong-output/WithPeek", fmt.Sprintf("WithPeek over a Peekable of %v (%d consumed, peeked=%v) yields iterator %v, stream %v (%v), want %v", in, consumed, peeked, g1, g2, err, want)}
			}
			// the same through Runs, which peeks internally
			p3 := iterator.WithPeek[int](&cIter{items: in})
			for i := 0; i < consumed; i++ {
				p3.Next()
			}
			if peeked {
				p3.Peek()
			}
			var flat []int
			runs := iterator.Runs[int](p3, func(a, b int) bool { return a == b })
			for {
				r, ok := runs.Next()
				if !ok {
					break
				}
				flat = append(flat, iterator.Collect(r)...)
			}
			if !eqInts(flat, want) {
				return &viol{"wrong-output/Runs", fmt.Sprintf("Runs over a Peekable of %v (%d consumed, peeked=%v) flattens to %v, want %v", in, consumed, peeked, flat, want)}
			}
		}
	}
	// a reducer over First with the largest n there is
	for _, n := range []int{math.MaxInt, math.MaxInt32} {
		var g1 []int
		if pp := vx.Catch(func() { g1 = iterator.Collect(iterator.First[int](&cIter{items: in}, n)) }); pp != nil {
			return &viol{"panic/First", fmt.Sprintf("Collect(First(%v, %d)) panicked: %v", in, n, pp)}
		}
		g2, err := stream.Collect(ctx, stream.First[int](cStream{&cIter{items: in}}, n))
		if !eqInts(g1, in) || !eqInts(g2, in) || err != nil {
			return &viol{"wrong-output/First", fmt.Sprintf("Collect(First(%v, %d)): iterator %v, stream %v (%v)", in, n, g1, g2, err)}
		}
	}
	return nil
}

// checkStatefulCallbacks: While and Filter with a predicate whose answer depends on WHEN it is asked
// (false exactly at its j-th invocation). While ends there and stays ended, whatever the predicate
// would say later; Filter drops exactly that item.
func checkStatefulCallbacks(in []int) *viol {
	atomic.AddInt64(&cases, 1)
	ctx := context.Background()
	for j := 0; j <= len(in); j++ {
		calls := 0
		pred := func(int) bool { calls++; return calls != j+1 }
		wantWhile := in
		if j < len(in) {
			wantWhile = in[:j]
		}
		var wantFilter []int
		for i, x := range in {
			if i != j {
				wantFilter = append(wantFilter, x)
			}
		}
		calls = 0
		it := iterator.While[int](&cIter{items: in}, pred)
		var g1 []int
		for {
			x, ok := it.Next()
			if !ok {
				break
			}
			g1 = append(g1, x)
		}
		for k := 0; k < 3; k++ {
			if x, ok := it.Next(); ok {
				return &viol{"end-not-sticky-or-extra-output/While", fmt.Sprintf("iterator.While over %v with a predicate that is false only at its invocation #%d yielded %d after it had reported the end", in, j+1, x)}
			}
		}
		calls = 0
		st := stream.While[int](cStream{&cIter{items: in}}, func(_ context.Context, x int) (bool, error) { return pred(x), nil })
		var g2 []int
		for {
			x, err := st.Next(ctx)
			if err != nil {
				break
			}
			g2 = append(g2, x)
		}
		for k := 0; k < 3; k++ {
			if x, err := st.Next(ctx); err != stream.End {
				return &viol{"end-not-sticky-or-extra-output/While", fmt.Sprintf("stream.While over %v with a predicate that is false only at its invocation #%d returned (%d,%v) after it had reported the end", in, j+1, x, err)}
			}
		}
		if !eqInts(g1, wantWhile) || !eqInts(g2, wantWhile) {
			return &viol{"wrong-output/While", fmt.Sprintf("While over %v with a predicate false at invocation #%d: iterator %v, stream %v, want %v", in, j+1, g1, g2, wantWhile)}
		}
		calls = 0
		f1 := iterator.Collect(iterator.Filter[int](&cIter{items: in}, pred))
		calls = 0
		f2, err := stream.Collect(ctx, stream.Filter[int](cStream{&cIter{items: in}}, func(_ context.Context, x int) (bool, error) { return pred(x), nil }))
		if !eqInts(f1, wantFilter) || !eqInts(f2, wantFilter) || err != nil {
			return &viol{"wrong-output/Filter", fmt.Sprintf("Filter over %v with a predicate false at invocation #%d: iterator %v, stream %v (%v), want %v", in, j+1, f1, f2, err, wantFilter)}
		}
	}
	return nil
}

func checkPeek(in []int) *viol {
	atomic.AddInt64(&cases, 1)
	// all Peek/Next patterns: before every Next, 0..2 Peeks
	for pat := 0; pat < 3; pat++ {
		s1 := &cIter{items: in}
		p1 := iterator.WithPeek[int](s1)
		s2 := &cIter{items: in}
		p2 := stream.WithPeek[int](cStream{s2})
		ctx := context.Background()
		for i := 0; i <= len(in)+1; i++ {
			for k := 0; k < pat; k++ {
				x, ok := p1.Peek()
				y, err := p2.Peek(ctx)
				if i < len(in) {
					if !ok || x != in[i] || err != nil || y != in[i] {
						return &viol{"wrong-output/WithPeek", fmt.Sprintf("Peek #%d over %v: iterator (%d,%v), stream (%d,%v)", i, in, x, ok, y, err)}
					}
					if s1.pulls > i+1 || s2.pulls > i+1 {
						return &viol{"not-lazy/WithPeek", fmt.Sprintf("Peek over %v pulled %d/%d items at position %d", in, s1.pulls, s2.pulls, i)}
					}
				} else if ok || err != stream.End {
					return &viol{"end-not-sticky-or-extra-output/WithPeek", fmt.Sprintf("Peek past the end of %v: iterator ok=%v, stream %v", in, ok, err)}
				}
			}
			x, ok := p1.Next()
			y, err := p2.Next(ctx)
			if i < len(in) {
				if !ok || x != in[i] || err != nil || y != in[i] {
					return &viol{"wrong-output/WithPeek", fmt.Sprintf("Next #%d over %v: iterator (%d,%v), stream (%d,%v)", i, in, x, ok, y, err)}
				}
				if s1.pulls > i+1 || s2.pulls > i+1 {
					return &viol{"not-lazy/WithPeek", fmt.Sprintf("after Next #%d over %v the source had been pulled %d/%d times", i+1, in, s1.pulls, s2.pulls)}
				}
			} else if ok || err != stream.End {
				return &viol{"end-not-sticky-or-extra-output/WithPeek", fmt.Sprintf("Next past the end of %v: iterator ok=%v, stream %v", in, ok, err)}
			}
		}
	}
	return nil
}

func firstLines(s string, n int) string {
	lines := strings.Split(s, "\n")
	if len(lines) > n {
		lines = lines[:n]
	}
	return strings.Join(lines, "\n")
}

func seqs(alpha, maxLen int) [][]int {
	out := [][]int{{}}
	prev := [][]int{{}}
	for l := 1; l <= maxLen; l++ {
		var cur [][]int
		for _, p := range prev {
			for a := 0; a < alpha; a++ {
				cur = append(cur, append(append([]int{}, p...), a))
			}
		}
		out = append(out, cur...)
		prev = cur
	}
	return out
}

func main() {
	run := vx.Start("C07")
	len2, len3 := 8, 5
	if !run.Quick() {
		len2, len3 = 14, 8
	}
	inputs := append(seqs(2, len2), seqs(3, len3)...)
	// longer, structured inputs (lengths the exhaustive part cannot reach): all-equal, alternating,
	// period 3, one long run in the middle, every length 9..40
	lens := []int{}
	for n := 9; n <= 40; n++ {
		lens = append(lens, n)
	}
	// around 64, 128 and 256, where buffers, strides or cut-offs of an implementation would sit
	lens = append(lens, 63, 64, 65, 66, 100, 127, 128, 129, 130, 200, 257)
	for _, n := range lens {
		n := n
		mk := func(f func(i int) int) []int {
			s := make([]int, n)
			for i := range s {
				s[i] = f(i)
			}
			return s
		}
		inputs = append(inputs, mk(func(i int) int { return 1 }), mk(func(i int) int { return i % 2 }), mk(func(i int) int { return i % 3 }),
			mk(func(i int) int {
				if i > 2 && i < n-2 {
					return 2
				}
				return i % 2
			}))
		if n >= 63 {
			// one long run with a single different item inside it (at a position past 64 where there is one)
			inputs = append(inputs, mk(func(i int) int {
				if i == n*3/4 {
					return 2
				}
				return 1
			}))
		}
	}
	combs := intCombs(len2 + 2)
	report := func(v *viol, replay any) {
		if v != nil {
			run.Violate(vx.Violation{Signature: v.sig, Detail: v.detail, Replay: replay})
		}
	}
	if run.Replay != "" {
		fmt.Println("C07 replays by re-running the (deterministic, fast) enumeration")
	}
	// single combinators
	vx.Parallel(len(inputs), func(i int) {
		in := inputs[i]
		// a panic inside a combinator is a verdict ("produces exactly the sequence ... for every input"),
		// not a crash of the check
		defer func() {
			if p := recover(); p != nil {
				report(&viol{"panic", fmt.Sprintf("a combinator panicked on input %v: %v\n%s", in, p, firstLines(string(debug.Stack()), 14))}, map[string]any{"input": in})
			}
		}()
		for _, c := range combs {
			report(checkInt(c.name, c.ref, c.it, c.st, c.sl, c.need, in), map[string]any{"combinator": c.name, "input": in})
		}
		for k := 1; k <= len(in)+1; k++ {
			report(checkChunk(in, k), map[string]any{"combinator": "Chunk", "input": in, "size": k})
		}
		if len(in) > 8 {
			// the remaining checks are quadratic or worse; the long inputs get the linear ones and Runs
			// under plain equality
			report(checkRuns(in, equivs[0]), map[string]any{"combinator": "Runs", "input": in, "classes": equivs[0]})
			return
		}
		for _, e := range equivs {
			report(checkRuns(in, e), map[string]any{"combinator": "Runs", "input": in, "classes": e})
		}
		report(checkReducersAndConstructors(in), map[string]any{"input": in})
		report(checkPeek(in), map[string]any{"combinator": "WithPeek", "input": in})
		report(checkPeekOnPeek(in), map[string]any{"combinator": "WithPeek over a Peekable", "input": in})
		report(checkStatefulCallbacks(in), map[string]any{"combinator": "While/Filter with a stateful predicate", "input": in})
		if len(in) <= 5 {
			for k := 1; k <= 3; k++ {
				if k == 3 && len(in) > 4 {
					continue
				}
				for _, parts := range splits(in, k) {
					report(checkJoinFlatten(parts), map[string]any{"combinator": "Join/Flatten", "parts": parts})
				}
			}
			report(checkJoinFlatten(nil), nil)
		}
	})
	// Equal over pairs
	small := seqs(2, 4)
	vx.Parallel(len(small), func(i int) {
		for _, b := range small {
			report(checkEqual(small[i], b), map[string]any{"combinator": "Equal", "a": small[i], "b": b})
		}
	})
	single := atomic.LoadInt64(&cases)
	// programs: ordered pairs (thorough: also triples of a reduced set) of unary instances
	progInputs := append(seqs(2, 6), seqs(3, 4)...)
	if !run.Quick() {
		progInputs = append(seqs(2, 9), seqs(3, 6)...)
	}
	var pcombs []intComb
	for _, c := range combs {
		if c.name == "First(-1)" || len(c.name) > 5 && c.name[:5] == "First" && c.name > "First(4)" {
			continue
		}
		pcombs = append(pcombs, c)
	}
	vx.Parallel(len(pcombs), func(i int) {
		a := pcombs[i]
		defer func() {
			if p := recover(); p != nil {
				report(&viol{"panic", fmt.Sprintf("a pipeline starting with %s panicked: %v\n%s", a.name, p, firstLines(string(debug.Stack()), 14))}, map[string]any{"program": a.name})
			}
		}()
		for _, b := range pcombs {
			name := b.name + "∘" + a.name
			ref := func(s []int) []int { return b.ref(a.ref(s)) }
			it := func(x iterator.Iterator[int]) iterator.Iterator[int] { return b.it(a.it(x)) }
			st := func(x stream.Stream[int]) stream.Stream[int] { return b.st(a.st(x)) }
			// stage b needs k items (or the end) from stage a, which needs need_a of those from the source
			needFn := func(in []int, j int) int { return a.need(in, b.need(a.ref(in), j)) }
			for _, in := range progInputs {
				report(checkInt(name, ref, it, st, nil, needFn, in), map[string]any{"program": name, "input": in})
			}
		}
	})
	total := atomic.LoadInt64(&cases)
	run.AddCounts(total, total, total)
	run.Set("inputs", len(inputs))
	run.Set("unary_instances", len(combs))
	run.Set("single_combinator_cases", single)
	run.Set("programs", len(pcombs)*len(pcombs))
	run.Set("program_cases", total-single)
	run.Sample(map[string]any{"combinator": "While(table 011)∘FlattenSlices.Chunk(2)", "input": []int{0, 1, 2, 0}})
	run.Sample(map[string]any{"combinator": "Runs", "input": []int{1, 1, 0}, "classes": []int{0, 1, 1}})
	run.Set("rule", "every input over {0,1} up to length 6/8 and {0,1,2} up to 4/5; First(n) for n in [-1,len+2]; all 8 predicate tables for While/Filter; all 5 equivalence relations for CompactFunc/Runs; all chunk sizes; all splittings into <= 3 parts for Join/Flatten/FlattenSlices; Peek/Next patterns; all ordered pairs of unary instances as programs; each in iterator and stream (and xslices) form")
	run.Assume("elements are inspected only through ==, the predicate or the equivalence (parametricity): small alphabets with all truth tables stand for all element types")
	run.Assume("the laziness bound of a combinator is the number of source items any implementation needs that treats its callbacks as black boxes; a pipeline's bound is the composition of its stages' bounds")
	run.Finish()
}
