#!/bin/bash
exec "$VERIF_ROOT/props/tree/run.sh" C02 "$@"
