//go:build mcbuild

// C14: parallel.MapIterator / parallel.MapStream. Engine E2.
package main

import (
	"strings"
	"time"

	"verif/mc"
	"verif/mc/mcx"
	"verif/props/c14/scn"
)

func main() {
	var scs []mcx.Scenario
	for _, s := range scn.All() {
		sc := mcx.Scenario{Name: s.Name, Body: s.Body, Cfg: mc.Config{GOMAXPROCS: s.Procs}, Bound: 2, ThoroughBound: 3, SwitchBound: 3, Family: strings.SplitN(s.Name, "/", 2)[0], MaxTime: 3 * time.Minute}
		if strings.Contains(s.Name, "p=3") || s.Procs == 3 || strings.Contains(s.Name, "vvvv") || strings.Contains(s.Name, "len=5") {
			sc.Bound, sc.ThoroughBound = 1, 2 // three workers or four items: one level less
		}
		scs = append(scs, sc)
	}
	mcx.Main("C14", scs, []string{
		"f contains a scheduling point, so late items can finish first in every possible way within the bounds",
		"the in-flight bound is evaluated with the GIVEN parameters (bufferSize + parallelism + 1, parallelism <= 0 meaning the controlled GOMAXPROCS answer)",
	})
}
