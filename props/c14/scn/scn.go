// Package scn holds the C14 scenario bodies (parallel.MapIterator / parallel.MapStream).
package scn

import (
	"context"
	"errors"
	"fmt"

	"github.com/bradenaw/juniper/parallel"
	"github.com/bradenaw/juniper/stream"

	"verif/mc/hx"
	"verif/props/sx"
)

type Scenario struct {
	Name  string
	Procs int
	Body  func()
}

type countingIter struct {
	n, pos  int
	yielded *int
	inNext  *bool
	limit   int
}

// An item that a Next call in progress has already taken out of the reorder buffer is on its way
// to the consumer: it counts as yielded from that moment. From outside only the call's return is
// visible, so while the consumer is inside Next one more item is allowed.
func slack(inNext bool) int {
	if inNext {
		return 1
	}
	return 0
}

func (it *countingIter) Next() (int, bool) {
	if it.pos >= it.n {
		return 0, false
	}
	v := it.pos
	it.pos++
	hx.Atomically(func() {
		if it.pos-*it.yielded > it.limit+slack(*it.inNext) {
			hx.Fail("in-flight-bound-exceeded", "%d source items taken, %d yielded: more than bufferSize+parallelism+1 = %d in flight", it.pos, *it.yielded, it.limit)
		}
	})
	return v, true
}

func effective(p, procs int) int {
	if p <= 0 {
		return procs
	}
	return p
}

func mapIterator(n, p, b, procs int) Scenario {
	return Scenario{fmt.Sprintf("mapIterator/len=%d/p=%d/buf=%d/procs=%d", n, p, b, procs), procs, func() {
		yielded := 0
		inNext := false
		calls := make([]int, n)
		src := &countingIter{n: n, yielded: &yielded, inNext: &inNext, limit: max0(b) + effective(p, procs) + 1}
		it := parallel.MapIterator[int, int](src, p, b, func(x int) int {
			hx.Atomically(func() { calls[x]++ })
			hx.Yield()
			return 100 + x
		})
		var got []int
		for {
			hx.Atomically(func() { inNext = true })
			v, ok := it.Next()
			hx.Atomically(func() {
				inNext = false
				if ok {
					yielded++
				}
			})
			if !ok {
				break
			}
			got = append(got, v)
		}
		if len(got) != n {
			hx.Fail("lost-or-extra-result", "MapIterator yielded %v for %d source items", got, n)
		}
		for i, v := range got {
			if v != 100+i {
				hx.Fail("order", "MapIterator yielded %v, want f(x) in source order", got)
			}
		}
		for i, c := range calls {
			if c != 1 {
				hx.Fail("not-exactly-once", "f(%d) called %d times", i, c)
			}
		}
		if _, ok := it.Next(); ok {
			hx.Fail("end-not-sticky", "MapIterator yielded an item after reporting the end")
		}
		hx.Quiesce()
		if live := hx.Live(); len(live) > 0 {
			hx.Fail("goroutine-left", "after the iterator was consumed these threads are still alive: %v", live)
		}
		hx.Outcome("%v", got)
	}}
}

func max0(x int) int {
	if x < 0 {
		return 0
	}
	return x
}

// mapStream: script = source script; failAt >= 0: f fails for that item; closeAfter >= 0: consumer
// closes after that many results; expire: the consumer's calls use a context that another thread
// cancels at any time, after which it retries with a live one.
func mapStream(script []sx.Step, p, b, procs, failAt, closeAfter int, expire bool) Scenario {
	return mapStreamX(script, p, b, procs, failAt, closeAfter, expire, "")
}

// ctor: what happens to the context given to MapStream itself: "" live throughout, "precancelled"
// (over before the call), "cancelMid" (another thread cancels it at any time).
func mapStreamX(script []sx.Step, p, b, procs, failAt, closeAfter int, expire bool, ctor string) Scenario {
	name := fmt.Sprintf("mapStream/src=%s/p=%d/buf=%d/procs=%d/failAt=%d/closeAfter=%d/expire=%v", scriptName(script), p, b, procs, failAt, closeAfter, expire)
	if ctor != "" {
		name += "/ctorCtx=" + ctor
	}
	return Scenario{name, procs, func() {
		src := &sx.Src{Name: "src", Steps: script}
		var srcErr error
		var items []int
		for _, st := range script {
			if st.Err != nil {
				srcErr = st.Err
				src.Final = st.Err
				break
			}
			if !st.Block {
				items = append(items, st.Val)
			}
		}
		yielded := 0
		inNext := false
		limit := max0(b) + effective(p, procs) + 1
		src.OnHand = func(v int) {
			if src.Handed-yielded > limit+slack(inNext) {
				hx.Fail("in-flight-bound-exceeded", "%d source items taken, %d yielded: more than bufferSize+parallelism+1 = %d in flight", src.Handed, yielded, limit)
			}
		}
		calls := map[int]int{}
		ctorCtx, ctorCancel := context.WithCancel(context.Background())
		defer ctorCancel()
		ctorCancelled := false
		if ctor == "precancelled" {
			ctorCancelled = true
			ctorCancel()
		}
		if ctor == "cancelMid" {
			go func() {
				hx.Atomically(func() { ctorCancelled = true })
				ctorCancel()
			}()
		}
		ms := parallel.MapStream[int, int](ctorCtx, src, p, b, func(ctx context.Context, x int) (int, error) {
			hx.Atomically(func() { calls[x]++ })
			hx.Yield()
			if x == failAt {
				return 0, sx.ErrFn
			}
			return 100 + x, nil
		})
		live := context.Background()
		var expiring context.Context
		var cancel context.CancelFunc
		if expire {
			expiring, cancel = context.WithCancel(live)
			go func() { cancel() }()
		}
		var got []int
		var end error
		for closeAfter < 0 || len(got) < closeAfter {
			ctx := live
			if expiring != nil {
				ctx = expiring
			}
			hx.Atomically(func() { inNext = true })
			v, err := ms.Next(ctx)
			hx.Atomically(func() {
				inNext = false
				if err == nil {
					yielded++
				}
			})
			if err != nil && expiring != nil && err == context.Canceled {
				// a Next that fails while waiting costs nothing: retry with a live context
				expiring = nil
				continue
			}
			if err != nil {
				end = err
				break
			}
			got = append(got, v)
		}
		ms.Close()
		// "by the time the returned stream's Close returns": checked in the same atomic step
		hx.Atomically(func() {
			if src.Closes == 0 {
				hx.Fail("source/not-closed-when-Close-returned", "Close of the mapped stream has returned but the source stream has not been closed yet")
			}
		})
		hx.Quiesce()
		if l := hx.Live(); len(l) > 0 {
			hx.Fail("goroutine-left-after-Close", "after Close returned these threads are still alive: %v", l)
		}
		if sig, d := src.Check(true); sig != "" {
			hx.Fail(sig, "%s", d)
		}
		for x, c := range calls {
			if c > 1 {
				hx.Fail("called-twice", "f(%d) called %d times", x, c)
			}
		}
		// results are a prefix of f(items) in order
		firstBad := len(items)
		for i, x := range items {
			if x == failAt {
				firstBad = i
				break
			}
		}
		for i, v := range got {
			if i >= firstBad {
				hx.Fail("result-beyond-failed-item", "got %v although item %d failed", got, firstBad)
			}
			if v != 100+items[i] {
				hx.Fail("order", "MapStream yielded %v, want f(x) in source order for %v", got, items)
			}
		}
		switch {
		case end == nil: // closed early
		case end == stream.End:
			if failAt >= 0 && firstBad < len(items) {
				hx.Fail("error-lost", "f failed for item %d but the stream reported End", firstBad)
			}
			if srcErr != nil {
				hx.Fail("error-lost", "the source failed with %v but the stream reported End", srcErr)
			}
			if len(got) != len(items) {
				hx.Fail("lost-result", "End after %v, source items %v", got, items)
			}
		case end == sx.ErrFn && failAt >= 0 && firstBad < len(items):
		case srcErr != nil && end == srcErr:
		case ctor != "" && end == context.Canceled:
			// the caller ended the context it gave to MapStream: its error is the caller's own doing
			hx.Atomically(func() {
				if !ctorCancelled {
					hx.Fail("foreign-error", "MapStream reported %v although nobody had cancelled the context given to it", end)
				}
			})
		default:
			hx.Fail("foreign-error", "MapStream reported %v; the source fails with %v and f with %v", end, srcErr, map[bool]error{true: sx.ErrFn}[failAt >= 0])
		}
		hx.Outcome("n=%d end=%v", len(got), end)
	}}
}

func scriptName(script []sx.Step) string {
	s := ""
	for _, st := range script {
		switch {
		case st.Err == context.Canceled:
			s += "cE" // the source's own error happens to be context.Canceled
		case st.Err != nil && st.Err != stream.End && errors.Is(st.Err, stream.End):
			s += "wE" // ... or wraps the end sentinel
		case st.Err != nil:
			s += "E"
		case st.Block:
			s += "B"
		default:
			s += "v"
		}
	}
	if s == "" {
		s = "-"
	}
	return s
}

func vals(n int) []sx.Step {
	var out []sx.Step
	for j := 0; j < n; j++ {
		out = append(out, sx.Step{Val: j})
	}
	return out
}

func All() []Scenario {
	e := sx.Step{Err: sx.ErrSrc}
	blk := sx.Step{Block: true}
	return []Scenario{
		mapIterator(0, 1, 0, 2), mapIterator(1, 1, 0, 2), mapIterator(2, 2, 0, 2), mapIterator(3, 2, 1, 2),
		// effective buffer size 1: the dispatcher has to be woken after every single item
		mapIterator(3, 1, 0, 2), mapIterator(3, 1, 1, 2), mapIterator(2, 1, -1, 2),
		mapIterator(3, 1, 2, 2), mapIterator(3, 2, 3, 2), mapIterator(4, 2, 0, 2), mapIterator(3, 0, 0, 2),
		mapIterator(3, 3, 1, 2), mapIterator(4, 1, 3, 2), mapIterator(3, -1, -1, 3),
		// sources longer than the in-flight limit, so that exceeding it is possible at all
		mapIterator(5, 2, 0, 2),
		mapStream(vals(5), 2, 0, 2, -1, -1, false),
		mapStream(vals(0), 2, 0, 2, -1, -1, false),
		mapStream(vals(3), 2, 0, 2, -1, -1, false),
		mapStream(vals(3), 1, 2, 2, -1, -1, false),
		mapStream(vals(3), 1, 0, 2, -1, -1, false),
		// more buffer than workers: the dispatcher holds an item while every worker is busy, then
		// f fails / the consumer closes
		mapStream(vals(3), 1, 2, 2, 0, -1, false),
		mapStream(vals(3), 1, 3, 2, -1, 0, false),
		mapStream(vals(4), 2, 3, 2, 1, -1, false),
		mapStream(vals(3), 1, 1, 2, -1, -1, false),
		mapStream(vals(4), 2, 1, 2, -1, -1, false),
		mapStream(vals(3), 0, 3, 2, -1, -1, false),
		mapStream(vals(3), 2, 1, 2, 1, -1, false),
		mapStream(vals(3), 2, 0, 2, 0, -1, false),
		mapStream(vals(3), 1, 0, 2, 2, -1, false),
		mapStream(append(vals(2), e), 2, 0, 2, -1, -1, false),
		mapStream([]sx.Step{e}, 2, 1, 2, -1, -1, false),
		// the source's own error wraps the end sentinel
		mapStream(append(vals(1), sx.Step{Err: fmt.Errorf("read failed: %w", stream.End)}), 2, 0, 2, -1, -1, false),
		// the context given to MapStream itself ends (before the call / at any time)
		mapStreamX(vals(2), 2, 0, 2, -1, -1, false, "precancelled"),
		mapStreamX(vals(3), 1, 0, 2, -1, -1, false, "cancelMid"),
		mapStreamX(append(vals(1), blk), 2, 0, 2, -1, -1, false, "cancelMid"),
		// the source's own error is context.Canceled
		mapStream(append(vals(1), sx.Step{Err: context.Canceled}), 2, 0, 2, -1, -1, false),
		mapStream(append(vals(1), e), 1, 1, 2, 0, -1, false),
		mapStream(vals(2), 2, 2, 2, -1, 0, false),
		mapStream(vals(3), 2, 0, 2, -1, 1, false),
		mapStream(vals(4), 1, 0, 2, -1, 2, false),
		mapStream(append(vals(1), blk), 2, 0, 2, -1, 1, false),
		mapStream([]sx.Step{blk}, 2, 0, 2, -1, 0, false),
		mapStream(vals(2), 2, 0, 2, -1, -1, true),
		mapStream(vals(2), 1, 1, 2, -1, -1, true),
	}
}
