// C18 (typed map part): xsync.Map[K,V] against sync.Map — all operation sequences up to a depth
// over two keys and the zero / non-zero (/ nil for interface types) values, for four value types.
// Engine E1 (exhaustive enumeration of operation sequences on the real code).
package main

import (
	"errors"
	"fmt"
	"reflect"
	"sync"

	"github.com/bradenaw/juniper/xsync"

	"verif/internal/vx"
)

type op struct {
	kind   int
	k      int
	v, old int // indices into the value table
}

var kinds = []string{"Load", "Store", "LoadOrStore", "LoadAndDelete", "Delete", "Swap", "CompareAndSwap", "CompareAndDelete", "Range", "RangeStop"}

func (o op) str(vals []string) string {
	switch o.kind {
	case 0, 3, 4:
		return fmt.Sprintf("%s(k%d)", kinds[o.kind], o.k)
	case 1, 2, 5:
		return fmt.Sprintf("%s(k%d,%s)", kinds[o.kind], o.k, vals[o.v])
	case 6:
		return fmt.Sprintf("CompareAndSwap(k%d,%s,%s)", o.k, vals[o.old], vals[o.v])
	case 7:
		return fmt.Sprintf("CompareAndDelete(k%d,%s)", o.k, vals[o.old])
	}
	if o.kind == 9 {
		return "Range(stop at once)"
	}
	return "Range"
}

func alphabet(nvals int) []op {
	var out []op
	for k := 0; k < 2; k++ {
		out = append(out, op{kind: 0, k: k}, op{kind: 3, k: k}, op{kind: 4, k: k})
		for v := 0; v < nvals; v++ {
			out = append(out, op{kind: 1, k: k, v: v}, op{kind: 2, k: k, v: v}, op{kind: 5, k: k, v: v}, op{kind: 7, k: k, old: v})
			for o := 0; o < nvals; o++ {
				out = append(out, op{kind: 6, k: k, v: v, old: o})
			}
		}
	}
	return append(out, op{kind: 8}, op{kind: 9})
}

// apply runs o on both maps and returns a description of a disagreement ("" if none).
func apply[V any](typed *xsync.Map[int, V], ref *sync.Map, o op, vals []V, names []string) string {
	var gotV, wantV any
	var gotB, wantB bool
	var gotP, wantP any
	run := func(f func()) (p any) {
		defer func() { p = recover() }()
		f()
		return nil
	}
	switch o.kind {
	case 0:
		gotP = run(func() { gotV, gotB = typed.Load(o.k) })
		wantP = run(func() { wantV, wantB = ref.Load(o.k) })
	case 1:
		gotP = run(func() { typed.Store(o.k, vals[o.v]) })
		wantP = run(func() { ref.Store(o.k, vals[o.v]) })
	case 2:
		gotP = run(func() { gotV, gotB = typed.LoadOrStore(o.k, vals[o.v]) })
		wantP = run(func() { wantV, wantB = ref.LoadOrStore(o.k, vals[o.v]) })
	case 3:
		gotP = run(func() { gotV, gotB = typed.LoadAndDelete(o.k) })
		wantP = run(func() { wantV, wantB = ref.LoadAndDelete(o.k) })
	case 4:
		gotP = run(func() { typed.Delete(o.k) })
		wantP = run(func() { ref.Delete(o.k) })
	case 5:
		gotP = run(func() { gotV, gotB = typed.Swap(o.k, vals[o.v]) })
		wantP = run(func() { wantV, wantB = ref.Swap(o.k, vals[o.v]) })
	case 6:
		gotP = run(func() { gotB = typed.CompareAndSwap(o.k, vals[o.old], vals[o.v]) })
		wantP = run(func() { wantB = ref.CompareAndSwap(o.k, vals[o.old], vals[o.v]) })
	case 7:
		gotP = run(func() { gotB = typed.CompareAndDelete(o.k, vals[o.old]) })
		wantP = run(func() { wantB = ref.CompareAndDelete(o.k, vals[o.old]) })
	case 8:
		g, w := map[int]any{}, map[int]any{}
		gotP = run(func() { typed.Range(func(k int, v V) bool { g[k] = any(v); return true }) })
		wantP = run(func() { ref.Range(func(k, v any) bool { w[k.(int)] = v; return true }) })
		gotV, wantV = fmt.Sprint(g), fmt.Sprint(w)
		if len(g) != len(w) {
			return fmt.Sprintf("Range visits %v, sync.Map %v", g, w)
		}
		for k, v := range w {
			if gv, ok := g[k]; !ok || !same(gv, v) {
				return fmt.Sprintf("Range visits %v, sync.Map %v", g, w)
			}
		}
		gotV, wantV = nil, nil
	}
	if o.kind == 9 {
		// Range with a callback that stops at once: exactly one entry is visited (if there is any)
		g, w := 0, 0
		gotP = run(func() { typed.Range(func(k int, v V) bool { g++; return false }) })
		wantP = run(func() { ref.Range(func(k, v any) bool { w++; return false }) })
		if g != w {
			return fmt.Sprintf("Range with a callback returning false visits %d entries, sync.Map %d", g, w)
		}
	}
	if (gotP != nil) != (wantP != nil) {
		return fmt.Sprintf("%s: typed map panic=%v, sync.Map panic=%v", o.str(names), gotP, wantP)
	}
	if gotB != wantB {
		return fmt.Sprintf("%s: typed map reports %v, sync.Map %v", o.str(names), gotB, wantB)
	}
	// an absent value is reported as the zero value of V by the typed map and as nil by sync.Map
	var zero V
	if wantV == nil {
		wantV = any(zero)
	}
	if gotV == nil {
		gotV = any(zero)
	}
	if !same(gotV, wantV) {
		return fmt.Sprintf("%s: typed map returns %v, sync.Map %v", o.str(names), gotV, wantV)
	}
	return ""
}

func same(a, b any) bool {
	if a == nil || b == nil {
		return a == nil && b == nil
	}
	if ta := reflect.TypeOf(a); !ta.Comparable() || !reflect.TypeOf(b).Comparable() {
		return reflect.DeepEqual(a, b)
	}
	return a == b
}

type result struct {
	seqs  int64
	viol  *vx.Violation
	sampl []string
}

func explore[V any](typeName string, vals []V, names []string, depth int) result {
	alpha := alphabet(len(vals))
	var res result
	var mu sync.Mutex
	// first-level prefixes in parallel
	vx.Parallel(len(alpha), func(i int) {
		var rec func(prefix []op)
		var local int64
		rec = func(prefix []op) {
			// replay prefix on fresh maps, checking the last step
			typed := &xsync.Map[int, V]{}
			ref := &sync.Map{}
			for j, o := range prefix {
				d := apply(typed, ref, o, vals, names)
				if d != "" {
					if j == len(prefix)-1 {
						mu.Lock()
						if res.viol == nil {
							var hist []string
							for _, x := range prefix {
								hist = append(hist, x.str(names))
							}
							res.viol = &vx.Violation{Signature: "xsync.Map/" + kinds[o.kind] + "/V=" + typeName, Detail: fmt.Sprintf("V=%s: %s; history %v", typeName, d, hist), Replay: map[string]any{"type": typeName, "history": hist}}
						}
						mu.Unlock()
					}
					return
				}
			}
			local++
			if len(prefix) == depth {
				return
			}
			for _, o := range alpha {
				rec(append(append([]op{}, prefix...), o))
			}
		}
		rec([]op{alpha[i]})
		mu.Lock()
		res.seqs += local
		mu.Unlock()
	})
	return res
}

func main() {
	run := vx.Start("C18")
	depth := 4
	if !run.Quick() {
		depth = 5
	}
	errA := errors.New("A")
	var rs []result
	rs = append(rs, explore[int]("int", []int{0, 7}, []string{"0", "7"}, depth))
	rs = append(rs, explore[string]("string", []string{"", "x"}, []string{`""`, `"x"`}, depth))
	rs = append(rs, explore[error]("error", []error{nil, errA}, []string{"nil", "errA"}, depth))
	rs = append(rs, explore[any]("any", []any{nil, 0, "x"}, []string{"nil", "0", `"x"`}, depth-1))
	// values that cannot be compared: sync.Map's CompareAndSwap/CompareAndDelete panic on them, and so
	// must the typed map ("exactly what sync.Map returns")
	rs = append(rs, explore[any]("any(non-comparable)", []any{nil, []int{1}}, []string{"nil", "[]int{1}"}, depth-1))
	rs = append(rs, explore[[]int]("[]int", [][]int{nil, {1}}, []string{"nil", "[]int{1}"}, depth-1))
	var table []map[string]any
	for i, r := range rs {
		run.AddCounts(r.seqs, r.seqs, r.seqs)
		table = append(table, map[string]any{"value_type": []string{"int", "string", "error", "any", "any holding a slice", "[]int"}[i], "sequences": r.seqs})
		if r.viol != nil {
			run.Violate(*r.viol)
		}
	}
	run.Set("typed_map", table)
	run.Set("depth", depth)
	run.Sample([]string{"Store(k0,nil)", "Load(k0)", "Swap(k1,errA)", "Range"})
	run.Set("rule", "all sequences of Load/Store/LoadOrStore/LoadAndDelete/Delete/Swap/CompareAndSwap/CompareAndDelete/Range over 2 keys and zero/non-zero(/nil) values, each step compared with sync.Map")
	run.Finish()
}
