//go:build mcbuild

// C18 (concurrent part): Watchable / Future / Lazy. Engine E2.
package main

import (
	"strings"
	"time"

	"verif/mc/mcx"
	"verif/props/c18/scn"
)

func main() {
	var scs []mcx.Scenario
	for _, s := range scn.All() {
		scs = append(scs, mcx.Scenario{Name: s.Name, Body: s.Body, Bound: 3, ThoroughBound: 4, SwitchBound: 4, Family: strings.SplitN(s.Name, "/", 2)[0], MaxTime: 3 * time.Minute})
	}
	mcx.Main("C18", scs, []string{
		"an observer runs the documented loop (Value, then wait for the channel); at quiescence an observer parked on an unclosed channel must hold the current value",
	})
}
