#!/bin/bash
# C18 = concurrent part (engine E2: Watchable/Future/Lazy) + typed-map part (engine E1), merged.
set -u
cd "$VERIF_ROOT"
B=.build/c18; mkdir -p $B bin
go build -o bin/vxmerge ./cmd/vxmerge || exit 2
if [ "${1:-}" = "--replay" ]; then
  if jq -e '.replay.type' "$2" >/dev/null 2>&1; then
    go build -tags verif -o bin/c18_map ./props/c18/mapdiff || exit 2
    exec bin/c18_map quick   # the map part is deterministic and fast: re-run it
  fi
  exec props/mcrun.sh C18 --replay "$2"
fi
go build -tags verif -o bin/c18_map ./props/c18/mapdiff 2> $B/build.log || { cat $B/build.log >&2; echo "INFRASTRUCTURE ERROR: build failed" >&2; exit 2; }
props/mcrun.sh C18 --build || exit 2
[ "${1:-}" = "--build" ] && exit 0
tier="${1:-quick}"
rm -f $B/mc.json $B/mc.race.json $B/map.json
VERIF_PART=$PWD/$B/mc.json VERIF_PART_NAME=concurrent bin/c18_mc $tier || { echo "INFRASTRUCTURE ERROR: concurrent part failed" >&2; exit 2; }
VERIF_PART=$PWD/$B/map.json VERIF_PART_NAME=typed-map bin/c18_map $tier || { echo "INFRASTRUCTURE ERROR: map part failed" >&2; exit 2; }
# free-running -race side pass over the concurrent scenario bodies (built by mcrun.sh --build)
GORACE="exitcode=66 halt_on_error=1" VERIF_PART=$PWD/$B/mc.race.json VERIF_PART_NAME=race-pass bin/c18_race $tier > $B/race.log 2>&1; rc=$?
if [ $rc = 66 ]; then
  head -60 $B/race.log >&2
  printf '{"name":"race-pass","cov":{"race_pass":"DATA RACE reported"},"samples":[],"assumptions":[],"viols":[{"signature":"data-race","detail":"the Go race detector reported a data race in a free-running execution of the scenario bodies (first report in .build/c18/race.log)","replay":{"mode":"race"}}],"known":[],"capped":[],"states":1,"transitions":1,"validated":1,"wall":0}' > $B/mc.race.json
elif [ $rc != 0 ]; then
  tail -5 $B/race.log >&2
  printf '{"name":"race-pass","cov":{"race_pass":"not completed: the free-running executions crashed (exit status %s)"},"samples":[],"assumptions":[],"viols":[],"known":[],"capped":["race pass not completed"],"states":0,"transitions":0,"validated":0,"wall":0}' "$rc" > $B/mc.race.json
fi
exec bin/vxmerge C18 $tier $B/mc.json $B/map.json $B/mc.race.json
