// Package scn holds the C18 scenario bodies (Watchable, Future, Lazy).
package scn

import (
	"context"
	"fmt"
	"sync"
	"time"

	"github.com/bradenaw/juniper/xsync"

	"verif/mc/hx"
)

type Scenario struct {
	Name string
	Body func()
}

// watchable: setters[i] = values thread i sets, in order; observers = number of observer threads
// running the documented loop.
func watchable(setters [][]int, observers int) Scenario {
	return Scenario{fmt.Sprintf("watchable/setters=%v/observers=%d", setters, observers), func() {
		var w xsync.Watchable[int]
		allSet := map[int]bool{}
		var wg sync.WaitGroup
		for _, vals := range setters {
			vals := vals
			for _, v := range vals {
				allSet[v] = true
			}
			wg.Add(1)
			go func() {
				defer wg.Done()
				for _, v := range vals {
					w.Set(v)
				}
			}()
		}
		type obs struct {
			seen    []int
			waiting chan struct{}
		}
		os := make([]*obs, observers)
		for i := range os {
			o := &obs{}
			os[i] = o
			go func() {
				for {
					v, changed := w.Value()
					hx.Atomically(func() {
						if v == 0 && len(o.seen) > 0 {
							hx.Fail("zero-after-value", "an observer saw %v and then the zero value", o.seen)
						}
						if v != 0 && !allSet[v] {
							hx.Fail("value-never-set", "Value returned %d which was never Set", v)
						}
						for _, s := range o.seen {
							if s == v {
								hx.Fail("woken-without-new-value", "an observer was woken (channel closed) but Value returned %d again: %v", v, o.seen)
							}
						}
						o.seen = append(o.seen, v)
						o.waiting = changed
					})
					<-changed
					hx.Atomically(func() { o.waiting = nil })
				}
			}()
		}
		wg.Wait()
		hx.Quiesce()
		final, finalCh := w.Value()
		select {
		case <-finalCh:
			hx.Fail("final-channel-closed", "no Set happened after the last Value call, yet its channel is closed")
		default:
		}
		nSets := 0
		for _, s := range setters {
			nSets += len(s)
		}
		if nSets == 0 && final != 0 {
			hx.Fail("nonzero-before-set", "Value before any Set returned %d", final)
		}
		if nSets > 0 {
			lastOf := false
			for _, s := range setters {
				if len(s) > 0 && s[len(s)-1] == final {
					lastOf = true
				}
			}
			if !lastOf {
				hx.Fail("final-not-a-last-set", "after all Sets returned Value yields %d, which is not the last value of any setter (%v)", final, setters)
			}
		}
		hx.Atomically(func() {
			for i, o := range os {
				if len(o.seen) == 0 {
					continue // never got to run: nothing to say
				}
				last := o.seen[len(o.seen)-1]
				if o.waiting != nil && last != final {
					hx.Fail("observer-stuck-on-stale-value", "observer %d is waiting on a channel that will never be closed, having last seen %d while the value is %d (seen %v)", i, last, final, o.seen)
				}
			}
		})
		hx.Outcome("final=%d", final)
	}}
}

// future: waiters use Wait (ctxWaiters of them use WaitContext with a context that a canceller
// thread cancels at any time).
func future(waiters, ctxWaiters int) Scenario {
	return Scenario{fmt.Sprintf("future/waiters=%d/ctxWaiters=%d", waiters, ctxWaiters), func() {
		f := xsync.NewFuture[int]()
		var wg sync.WaitGroup
		ctx, cancel := context.WithCancel(context.Background())
		defer cancel()
		cancelled := false
		for i := 0; i < waiters; i++ {
			wg.Add(1)
			go func() {
				defer wg.Done()
				if v := f.Wait(); v != 42 {
					hx.Fail("future-wrong-value", "Wait returned %d, the future was filled with 42", v)
				}
			}()
		}
		for i := 0; i < ctxWaiters; i++ {
			wg.Add(1)
			go func() {
				defer wg.Done()
				v, err := f.WaitContext(ctx)
				hx.Atomically(func() {
					if err != nil {
						if !cancelled || err != context.Canceled {
							hx.Fail("future-spurious-error", "WaitContext returned %v although its context was not cancelled", err)
						}
					} else if v != 42 {
						hx.Fail("future-wrong-value", "WaitContext returned %d, the future was filled with 42", v)
					}
				})
			}()
		}
		if ctxWaiters > 0 {
			wg.Add(1)
			go func() {
				defer wg.Done()
				hx.Atomically(func() { cancelled = true })
				cancel()
			}()
		}
		f.Fill(42)
		if v := f.Wait(); v != 42 {
			hx.Fail("future-wrong-value", "Wait after Fill returned %d", v)
		}
		wg.Wait() // every waiter returns: a waiter stuck forever shows as a deadlock
		if v, err := f.WaitContext(context.Background()); v != 42 || err != nil {
			hx.Fail("future-wrong-value", "WaitContext after Fill returned (%d,%v)", v, err)
		}
		hx.Outcome("ok")
	}}
}

// futureNeverFilled: WaitContext gives up when its context ends although nothing ever fills the
// future (a waiter that stays parked shows as a deadlock); a Fill afterwards still reaches later
// waiters.
func futureNeverFilled(ctxWaiters int, deadline bool) Scenario {
	return Scenario{fmt.Sprintf("future/never-filled/ctxWaiters=%d/deadline=%v", ctxWaiters, deadline), func() {
		f := xsync.NewFuture[int]()
		var wg sync.WaitGroup
		ctx, cancel := context.WithCancel(context.Background())
		want := context.Canceled
		if deadline {
			ctx, cancel = context.WithTimeout(context.Background(), time.Millisecond)
			want = context.DeadlineExceeded
		}
		defer cancel()
		for i := 0; i < ctxWaiters; i++ {
			wg.Add(1)
			go func() {
				defer wg.Done()
				v, err := f.WaitContext(ctx)
				if err != want || v != 0 {
					hx.Fail("future-wait-context-result", "WaitContext on a future that was never filled returned (%d, %v); its context ended with %v", v, err, want)
				}
			}()
		}
		if !deadline {
			wg.Add(1)
			go func() {
				defer wg.Done()
				cancel()
			}()
		}
		wg.Wait()
		f.Fill(7)
		if v, err := f.WaitContext(ctx); err == nil && v != 7 {
			hx.Fail("future-wrong-value", "WaitContext after Fill returned (%d, nil)", v)
		}
		if v := f.Wait(); v != 7 {
			hx.Fail("future-wrong-value", "Wait after Fill returned %d", v)
		}
		hx.Outcome("ok")
	}}
}

// watchableSequential: one thread; the same value set twice is still two Sets (the channel handed out
// between them is closed by the second), also for element types that cannot be compared.
func watchableSequential() Scenario {
	return Scenario{"watchable/sequential/same-value-twice-and-non-comparable-values", func() {
		closed := func(c <-chan struct{}) bool {
			select {
			case <-c:
				return true
			default:
				return false
			}
		}
		var w xsync.Watchable[int]
		v0, c0 := w.Value()
		if v0 != 0 || closed(c0) {
			hx.Fail("watchable-initial", "before any Set: Value() = %d, channel closed: %v", v0, closed(c0))
		}
		w.Set(1)
		v1, c1 := w.Value()
		w.Set(1)
		v2, c2 := w.Value()
		if !closed(c0) || v1 != 1 || !closed(c1) || v2 != 1 || closed(c2) {
			hx.Fail("watchable-same-value", "Set(1); v1,c1 := Value(); Set(1); v2,c2 := Value(): v1=%d v2=%d, closed(c0)=%v closed(c1)=%v (want true: a later Set has happened) closed(c2)=%v (want false)", v1, v2, closed(c0), closed(c1), closed(c2))
		}
		w.Set(0) // the zero value is a value like any other
		v3, c3 := w.Value()
		if !closed(c2) || v3 != 0 || closed(c3) {
			hx.Fail("watchable-zero-value", "after Set(0): Value() = %d, closed(c2)=%v, closed(c3)=%v", v3, closed(c2), closed(c3))
		}
		var ws xsync.Watchable[[]int]
		ws.Set([]int{1})
		_, cs := ws.Value()
		ws.Set([]int{1})
		vs, cs2 := ws.Value()
		if !closed(cs) || closed(cs2) || len(vs) != 1 {
			hx.Fail("watchable-non-comparable", "Watchable[[]int]: after two Sets Value() = %v, closed(first channel)=%v, closed(latest)=%v", vs, closed(cs), closed(cs2))
		}
		var wf xsync.Watchable[func() int]
		wf.Set(func() int { return 1 })
		_, cf := wf.Value()
		wf.Set(func() int { return 2 })
		f, _ := wf.Value()
		if !closed(cf) || f() != 2 {
			hx.Fail("watchable-non-comparable", "Watchable[func() int]: second Set not visible")
		}
		hx.Outcome("ok")
	}}
}

// lazyNil: the function's result is a nil interface value (e.g. a nil error): every caller gets it.
func lazyNil(callers int) Scenario {
	return Scenario{fmt.Sprintf("lazy/nil-interface-result/callers=%d", callers), func() {
		runs := 0
		l := xsync.Lazy(func() error {
			hx.Atomically(func() { runs++ })
			hx.Yield()
			return nil
		})
		var wg sync.WaitGroup
		for i := 0; i < callers; i++ {
			wg.Add(1)
			go func() {
				defer wg.Done()
				if err := l(); err != nil {
					hx.Fail("lazy-wrong-result", "a caller got %v, the function returned nil", err)
				}
			}()
		}
		wg.Wait()
		if err := l(); err != nil || runs != 1 {
			hx.Fail("lazy-wrong-result", "later call returned %v; the function ran %d times", err, runs)
		}
		hx.Outcome("ok")
	}}
}

func lazy(callers int) Scenario {
	return Scenario{fmt.Sprintf("lazy/callers=%d", callers), func() {
		runs := 0
		l := xsync.Lazy(func() int {
			hx.Atomically(func() { runs++ })
			hx.Yield()
			return 40 + runs
		})
		var wg sync.WaitGroup
		res := make([]int, callers)
		for i := 0; i < callers; i++ {
			i := i
			wg.Add(1)
			go func() {
				defer wg.Done()
				res[i] = l()
			}()
		}
		wg.Wait()
		if runs != 1 {
			hx.Fail("lazy-ran-more-than-once", "the function ran %d times", runs)
		}
		for _, r := range res {
			if r != 41 {
				hx.Fail("lazy-wrong-result", "callers got %v, the single run returned 41", res)
			}
		}
		if l() != 41 {
			hx.Fail("lazy-wrong-result", "a later call got a different result")
		}
		hx.Outcome("ok")
	}}
}

// lazyPanic: the function panics; every caller has to observe that (a caller that silently gets a
// value did not get "that result").
func lazyPanic(callers int) Scenario {
	return Scenario{fmt.Sprintf("lazy/panicking-f/callers=%d", callers), func() {
		runs := 0
		l := xsync.Lazy(func() int {
			hx.Atomically(func() { runs++ })
			hx.Yield()
			panic("lazy function failed")
		})
		var wg sync.WaitGroup
		panicked := make([]bool, callers)
		for i := 0; i < callers; i++ {
			i := i
			wg.Add(1)
			go func() {
				defer wg.Done()
				defer func() {
					if recover() != nil {
						panicked[i] = true
					}
				}()
				l()
			}()
		}
		wg.Wait()
		later := false
		func() {
			defer func() {
				if recover() != nil {
					later = true
				}
			}()
			l()
		}()
		for i, p := range panicked {
			if !p {
				hx.Fail("lazy-panic-not-propagated", "the function panicked, but caller %d silently received a value", i)
			}
		}
		if !later {
			hx.Fail("lazy-panic-not-propagated", "the function panicked, but a later caller silently received a value")
		}
		if runs != 1 {
			hx.Fail("lazy-ran-more-than-once", "the (panicking) function ran %d times", runs)
		}
		hx.Outcome("ok")
	}}
}

func All() []Scenario {
	return []Scenario{
		watchable(nil, 1),
		watchable([][]int{{1}}, 1),
		watchable([][]int{{1, 2}}, 1),
		watchable([][]int{{1}, {2}}, 1),
		watchable([][]int{{1}, {2}}, 2),
		watchable([][]int{{1, 2}, {3}}, 1),
		watchable([][]int{{1, 2}}, 2),
		future(1, 0), future(2, 0), future(1, 1), future(0, 2),
		futureNeverFilled(1, false), futureNeverFilled(2, false), futureNeverFilled(1, true),
		lazy(2), lazy(3), lazyPanic(2), lazyNil(2), watchableSequential(),
	}
}
