// C06: xlist.List equals an ideal sequence of node handles for every history.
//
// Engine E1. Two explorations on the real xlist.List:
//
//	(a) closure: BFS with states de-duplicated on the list length (justified: after a step passed
//	    the full check, every pointer field of the list is determined by the handle sequence, so
//	    two states of equal length are isomorphic) — all transitions out of every length 0..N with
//	    EVERY choice of node/mark handle;
//	(b) all operation sequences up to a depth, no de-duplication at all, so that the verdict does
//	    not rest on the isomorphism argument.
//
// Oracle after every operation: slice-of-handles model; forward walk from Front and backward walk
// from Back visit exactly the model's handles (mirror images), Len agrees, first has no Prev, last
// no Next, removed nodes have neither neighbour, every handle's Value untouched.
package main

import (
	"fmt"

	"github.com/bradenaw/juniper/container/xlist"

	"verif/internal/seqx"
	"verif/internal/vx"
)

const (
	opPushFront = iota
	opPushBack
	opInsertBefore // A = mark index
	opInsertAfter  // A = mark index
	opRemove       // A = node index
	opMoveBefore   // A = node, B = mark
	opMoveAfter    // A = node, B = mark
	opMoveToFront  // A = node
	opMoveToBack   // A = node
	opClear
)

var opNames = []string{"PushFront", "PushBack", "InsertBefore", "InsertAfter", "Remove", "MoveBefore", "MoveAfter", "MoveToFront", "MoveToBack", "Clear"}

func opStr(o seqx.Op) string {
	switch o.K {
	case opPushFront, opPushBack, opClear:
		return opNames[o.K]
	case opMoveBefore, opMoveAfter:
		return fmt.Sprintf("%s(node#%d,mark#%d)", opNames[o.K], o.A, o.B)
	default:
		return fmt.Sprintf("%s(#%d)", opNames[o.K], o.A)
	}
}

func pathStr(p []seqx.Op) []string {
	out := make([]string, len(p))
	for i, o := range p {
		out[i] = opStr(o)
	}
	return out
}

type sys struct {
	maxLen int
	dedup  bool
}

type handle struct {
	n   *xlist.Node[int]
	val int
}

func enabled(n, maxLen int) []seqx.Op {
	var ops []seqx.Op
	if n < maxLen {
		ops = append(ops, seqx.Op{K: opPushFront}, seqx.Op{K: opPushBack})
		for i := 0; i < n; i++ {
			ops = append(ops, seqx.Op{K: opInsertBefore, A: int16(i)}, seqx.Op{K: opInsertAfter, A: int16(i)})
		}
	}
	for i := 0; i < n; i++ {
		ops = append(ops, seqx.Op{K: opRemove, A: int16(i)}, seqx.Op{K: opMoveToFront, A: int16(i)}, seqx.Op{K: opMoveToBack, A: int16(i)})
		for j := 0; j < n; j++ {
			ops = append(ops, seqx.Op{K: opMoveBefore, A: int16(i), B: int16(j)}, seqx.Op{K: opMoveAfter, A: int16(i), B: int16(j)})
		}
	}
	ops = append(ops, seqx.Op{K: opClear})
	return ops
}

func insertAt(s []handle, i int, h handle) []handle {
	s = append(s, handle{})
	copy(s[i+1:], s[i:])
	s[i] = h
	return s
}

func removeAt(s []handle, i int) []handle {
	return append(s[:i:i], s[i+1:]...)
}

// check compares the real list with the model.
func check(l *xlist.List[int], model []handle, removed []handle, cleared []handle) *seqx.Viol {
	// "their Value is never touched": also for handles kept across a Clear (their links are the
	// list's business, their Value is the caller's)
	for _, h := range cleared {
		if h.n.Value != h.val {
			return &seqx.Viol{Sig: "value-touched", Detail: "the Value of a node that was in the list when it was cleared was modified"}
		}
	}
	if l.Len() != len(model) {
		return &seqx.Viol{Sig: "len", Detail: fmt.Sprintf("Len()=%d, model has %d handles", l.Len(), len(model))}
	}
	// forward walk
	i := 0
	for n := l.Front(); n != nil; n = n.Next() {
		if i >= len(model) {
			return &seqx.Viol{Sig: "forward-walk", Detail: "forward walk visits more nodes than the model holds (or cycles)"}
		}
		if n != model[i].n {
			return &seqx.Viol{Sig: "forward-walk", Detail: fmt.Sprintf("forward walk position %d is not the model's handle", i)}
		}
		i++
	}
	if i != len(model) {
		return &seqx.Viol{Sig: "forward-walk", Detail: fmt.Sprintf("forward walk visits %d nodes, model has %d", i, len(model))}
	}
	i = len(model) - 1
	for n := l.Back(); n != nil; n = n.Prev() {
		if i < 0 {
			return &seqx.Viol{Sig: "backward-walk", Detail: "backward walk visits more nodes than the model holds (or cycles)"}
		}
		if n != model[i].n {
			return &seqx.Viol{Sig: "backward-walk", Detail: fmt.Sprintf("backward walk position %d is not the model's handle", i)}
		}
		i--
	}
	if i != -1 {
		return &seqx.Viol{Sig: "backward-walk", Detail: fmt.Sprintf("backward walk stops early, %d nodes not visited", i+1)}
	}
	if len(model) > 0 {
		if model[0].n.Prev() != nil {
			return &seqx.Viol{Sig: "first-has-prev", Detail: "first node has a Prev"}
		}
		if model[len(model)-1].n.Next() != nil {
			return &seqx.Viol{Sig: "last-has-next", Detail: "last node has a Next"}
		}
	} else if l.Front() != nil || l.Back() != nil {
		return &seqx.Viol{Sig: "empty-front-back", Detail: "empty list has a Front or Back"}
	}
	for _, h := range model {
		if h.n.Value != h.val {
			return &seqx.Viol{Sig: "value-touched", Detail: "a node's Value was modified"}
		}
	}
	for _, h := range removed {
		if h.n.Next() != nil || h.n.Prev() != nil {
			return &seqx.Viol{Sig: "removed-has-neighbour", Detail: "a removed node still has a neighbour"}
		}
		if h.n.Value != h.val {
			return &seqx.Viol{Sig: "value-touched", Detail: "a removed node's Value was modified"}
		}
	}
	return nil
}

func (s sys) Run(path []seqx.Op) (res seqx.Result) {
	var l xlist.List[int]
	var model, removed, cleared []handle
	val := 100
	apply := func(o seqx.Op) {
		val++
		switch o.K {
		case opPushFront:
			n := l.PushFront(val)
			model = insertAt(model, 0, handle{n, val})
		case opPushBack:
			n := l.PushBack(val)
			model = append(model, handle{n, val})
		case opInsertBefore:
			n := l.InsertBefore(val, model[o.A].n)
			model = insertAt(model, int(o.A), handle{n, val})
		case opInsertAfter:
			n := l.InsertAfter(val, model[o.A].n)
			model = insertAt(model, int(o.A)+1, handle{n, val})
		case opRemove:
			h := model[o.A]
			l.Remove(h.n)
			model = removeAt(model, int(o.A))
			removed = append(removed, h)
		case opMoveBefore, opMoveAfter, opMoveToFront, opMoveToBack:
			h := model[o.A]
			var mark handle
			switch o.K {
			case opMoveBefore:
				mark = model[o.B]
				l.MoveBefore(h.n, mark.n)
			case opMoveAfter:
				mark = model[o.B]
				l.MoveAfter(h.n, mark.n)
			case opMoveToFront:
				mark = model[0]
				l.MoveToFront(h.n)
			case opMoveToBack:
				mark = model[len(model)-1]
				l.MoveToBack(h.n)
			}
			if mark.n != h.n {
				model = removeAt(model, int(o.A))
				mi := -1
				for i := range model {
					if model[i].n == mark.n {
						mi = i
					}
				}
				if o.K == opMoveBefore || o.K == opMoveToFront {
					model = insertAt(model, mi, h)
				} else {
					model = insertAt(model, mi+1, h)
				}
			}
		case opClear:
			l.Clear()
			cleared = append(append(cleared, model...), removed...)
			model = nil
			removed = nil // handles of a cleared list are no longer valid as arguments
		}
	}
	for i, o := range path {
		p := vx.Catch(func() { apply(o) })
		if p != nil {
			if i == len(path)-1 {
				res.Viol = &seqx.Viol{Sig: "panic/" + opNames[o.K], Detail: fmt.Sprintf("%s panicked: %v", opStr(o), p)}
			} else {
				res.Viol = &seqx.Viol{Sig: "panic-in-prefix", Detail: fmt.Sprintf("%s panicked: %v", opStr(o), p)}
			}
			return
		}
	}
	res.Checks = 1
	if v := check(&l, model, removed, cleared); v != nil {
		last := "initial"
		if len(path) > 0 {
			last = opNames[path[len(path)-1].K]
		}
		v.Sig = v.Sig + "/after-" + last
		res.Viol = v
		return
	}
	if s.dedup {
		res.Key = fmt.Sprintf("len=%d", len(model))
	} else {
		res.Key = "x"
	}
	res.Next = enabled(len(model), s.maxLen)
	return
}

// scale grows one list to n nodes and checks it against a model of handles at the sizes where an
// integer of 8 or 16 bits would wrap. The model is two slices (front part reversed, back part), so
// the pass is linear apart from the check points.
func scale(n int) *seqx.Viol {
	var l xlist.List[int]
	var fp, bp []*xlist.Node[int] // list = reverse(fp) ++ bp
	size := func() int { return len(fp) + len(bp) }
	front := func() *xlist.Node[int] {
		if len(fp) > 0 {
			return fp[len(fp)-1]
		}
		return bp[0]
	}
	back := func() *xlist.Node[int] {
		if len(bp) > 0 {
			return bp[len(bp)-1]
		}
		return fp[0]
	}
	checkAt := map[int]bool{255: true, 256: true, 257: true, 65535: true, 65536: true, 65537: true, n: true, 0: true}
	verify := func(what string) *seqx.Viol {
		model := make([]*xlist.Node[int], 0, size())
		for i := len(fp) - 1; i >= 0; i-- {
			model = append(model, fp[i])
		}
		model = append(model, bp...)
		if l.Len() != len(model) {
			return &seqx.Viol{Sig: "scale/len", Detail: fmt.Sprintf("%s: Len()=%d with %d nodes in the list", what, l.Len(), len(model))}
		}
		i := 0
		for x := l.Front(); x != nil; x = x.Next() {
			if i >= len(model) || x != model[i] {
				return &seqx.Viol{Sig: "scale/forward-walk", Detail: fmt.Sprintf("%s: forward walk differs from the model at position %d of %d", what, i, len(model))}
			}
			i++
		}
		if i != len(model) {
			return &seqx.Viol{Sig: "scale/forward-walk", Detail: fmt.Sprintf("%s: forward walk visits %d nodes, model %d", what, i, len(model))}
		}
		i = len(model) - 1
		for x := l.Back(); x != nil; x = x.Prev() {
			if i < 0 || x != model[i] {
				return &seqx.Viol{Sig: "scale/backward-walk", Detail: fmt.Sprintf("%s: backward walk differs from the model at position %d of %d", what, i, len(model))}
			}
			i--
		}
		if i != -1 {
			return &seqx.Viol{Sig: "scale/backward-walk", Detail: fmt.Sprintf("%s: backward walk stops %d nodes early", what, i+1)}
		}
		return nil
	}
	var viol *seqx.Viol
	if p := vx.Catch(func() {
		for size() < n {
			k := size()
			switch {
			case k == 0 || k%4 == 0:
				bp = append(bp, l.PushBack(k))
			case k%4 == 1:
				fp = append(fp, l.PushFront(k))
			case k%4 == 2:
				bp = append(bp, l.InsertAfter(k, back()))
			default:
				fp = append(fp, l.InsertBefore(k, front()))
			}
			if checkAt[size()] {
				if viol = verify(fmt.Sprintf("grown to %d nodes", size())); viol != nil {
					return
				}
			}
		}
		for size() > 0 {
			if (size()%2 == 0 && len(fp) > 0) || len(bp) == 0 {
				l.Remove(fp[len(fp)-1])
				fp = fp[:len(fp)-1]
			} else {
				l.Remove(bp[len(bp)-1])
				bp = bp[:len(bp)-1]
			}
			if checkAt[size()] {
				if viol = verify(fmt.Sprintf("shrunk to %d nodes", size())); viol != nil {
					return
				}
			}
		}
	}); p != nil {
		return &seqx.Viol{Sig: "scale/panic", Detail: fmt.Sprintf("panic with %d nodes: %v", size(), p)}
	}
	return viol
}

func main() {
	run := vx.Start("C06")
	if run.Replay != "" {
		var rp struct {
			MaxLen int       `json:"max_len"`
			Ops    []seqx.Op `json:"ops"`
		}
		run.LoadReplay(&rp)
		for i := 1; i <= len(rp.Ops); i++ {
			r := sys{maxLen: rp.MaxLen}.Run(rp.Ops[:i])
			fmt.Printf("step %d %s: %v\n", i, opStr(rp.Ops[i-1]), r.Viol)
			if r.Viol != nil {
				run.Violate(vx.Violation{Signature: r.Viol.Sig, Detail: r.Viol.Detail, Replay: rp})
				break
			}
		}
		run.Finish()
	}
	maxLen, depth, seedDepth := 8, 5, 3
	if !run.Quick() {
		maxLen, depth, seedDepth = 11, 6, 3
	}
	report := func(st seqx.Stats, maxLen int, what string) {
		run.AddCounts(st.States, st.Transitions, st.Transitions)
		if st.Capped != "" {
			run.Capped(what + ": " + st.Capped)
		}
		for _, p := range st.SamplePaths {
			run.Sample(map[string]any{"exploration": what, "ops": pathStr(p)})
		}
		if len(st.Viols) > 0 {
			v := st.Viols[0]
			run.Violate(vx.Violation{
				Signature: v.Viol.Sig,
				Detail:    fmt.Sprintf("%s; history %v", v.Viol.Detail, pathStr(v.Path)),
				Replay:    map[string]any{"max_len": maxLen, "ops": v.Path, "readable": pathStr(v.Path)},
			})
		}
	}
	// (a) closure keyed by length
	stA := seqx.Explore(sys{maxLen: maxLen, dedup: true}, seqx.Config{Deadline: run.Deadline})
	report(stA, maxLen, "closure-by-length")
	run.Set("closure", map[string]any{"max_len": maxLen, "states": stA.States, "transitions": stA.Transitions})
	// (b) all sequences from empty
	stB := seqx.Enumerate(sys{maxLen: maxLen}, [][]seqx.Op{nil}, depth, seqx.Config{Deadline: run.Deadline})
	report(stB, maxLen, "all-sequences-from-empty")
	run.Set("sequences_from_empty", map[string]any{"depth": depth, "sequences": stB.Transitions})
	// (c) all sequences from canonical lists of every length (start from non-initial states)
	var seeds [][]seqx.Op
	for n := 1; n <= maxLen; n++ {
		var p []seqx.Op
		for i := 0; i < n; i++ {
			p = append(p, seqx.Op{K: opPushBack})
		}
		seeds = append(seeds, p)
	}
	stC := seqx.Enumerate(sys{maxLen: maxLen}, seeds, seedDepth, seqx.Config{Deadline: run.Deadline})
	report(stC, maxLen, "all-sequences-from-seeds")
	run.Set("sequences_from_seeds", map[string]any{"seed_lengths": maxLen, "depth": seedDepth, "sequences": stC.Transitions})
	// (d) one long list: sizes beyond 2^8 and 2^16 (a narrower length field would wrap), built with
	// every insertion operation, walked both ways, then taken apart with every removal order
	if v := scale(70000); v != nil {
		run.Violate(vx.Violation{Signature: v.Sig, Detail: v.Detail, Replay: map[string]any{"mode": "scale"}})
	}
	run.AddCounts(1, 4*70000, 4*70000)
	run.Set("scale", "one list grown to 70 000 nodes through PushBack/PushFront/InsertAfter/InsertBefore, Len and both walks checked at 255, 256, 257, 65535, 65536, 65537 and 70 000 nodes, then shrunk again with Remove from both ends")
	run.Set("rule", "every operation x every node/mark handle choice; full two-way walk check after each operation")
	run.Assume("element values are opaque to the list (parametricity)")
	run.Finish()
}
